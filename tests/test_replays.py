"""Plain unit tests that replay, without the explorer, the minimal state of every finding:
fixed findings must be clean on the repaired tree, recorded findings must still reproduce (and
match their signature in known_findings.json).  Run:  cd /verif && PYTHONPATH=/repo:/verif /venv/bin/python -m unittest tests.test_replays
"""
import glob
import importlib
import json
import os
import unittest
import warnings

ROOT = os.path.dirname(os.path.dirname(os.path.abspath(__file__)))


class ReplayFindings(unittest.TestCase):
    pass


def _mk(path):
    rec = json.load(open(path))

    def test(self):
        warnings.simplefilter("ignore")
        import openaerostruct

        self.assertTrue(os.path.realpath(openaerostruct.__file__).startswith(os.path.realpath(os.environ.get("OASMC_REPO", "/repo")) + "/"), "PYTHONPATH must start with the repository")
        from oasmc import engine, run

        check = importlib.import_module("oasmc.checks." + rec["property"].lower())
        r = engine.run_one(check, rec["state"])
        self.assertNotIn("error", r, r.get("error"))
        findings = run.load_findings()
        got = set()
        for v in r.get("viol", []):
            kf = run.match_finding(findings, rec["property"], v["sig"])
            got.add("known:" + kf["id"] if kf else "NEW:" + json.dumps(v["sig"], sort_keys=True))
        if rec["expect"] == "clean":
            self.assertEqual(got, set(), "finding %s is recorded as fixed but reproduces: %s" % (rec["finding"], got))
        else:
            self.assertIn(rec["expect"], got, "recorded finding %s no longer reproduces" % rec["finding"])
            self.assertFalse([g for g in got if g.startswith("NEW:")], "unrecorded violation in the replay state of %s: %s" % (rec["finding"], got))

    return test


for _p in sorted(glob.glob(os.path.join(ROOT, "tests", "replays", "*.json"))):
    setattr(ReplayFindings, "test_" + os.path.basename(_p)[:-5], _mk(_p))

if __name__ == "__main__":
    unittest.main()
