import sys, warnings, importlib.util
sys.path.insert(0, '/repo'); sys.path.insert(0,'.')
warnings.simplefilter('ignore')
import numpy as np, openmdao.api as om
spec=importlib.util.spec_from_file_location('twb','/repo/tests/integration_tests/test_wingbox_analysis.py'); twb=importlib.util.module_from_spec(spec); spec.loader.exec_module(twb)
from openaerostruct.structures.struct_groups import SpatialBeamAlone
from t_c01 import mesh_for
def run(mesh, sym, loads):
    s={"name":"wing","S_ref_type":"wetted","fem_model_type":"wingbox","symmetry":sym,"spar_thickness_cp":np.array([0.006,0.006]),"skin_thickness_cp":np.array([0.01,0.01]),"mesh":mesh,
       "data_x_upper":twb.upper_x.real,"data_x_lower":twb.lower_x.real,"data_y_upper":twb.upper_y.real,"data_y_lower":twb.lower_y.real,"strength_factor_for_upper_skin":1.0,
       "t_over_c_cp":np.array([0.1]),"original_wingbox_airfoil_t_over_c":0.12,"E":73.1e9,"G":73.1e9/2/1.33,"yield":420e6/1.5,"mrho":2.78e3,"wing_weight_ratio":1.25,
       "struct_weight_relief":False,"distributed_fuel_weight":False,"exact_failure_constraint":True,"fuel_density":803.,"Wf_reserve":15000.}
    p=om.Problem(reports=False); g=SpatialBeamAlone(surface=s); ivc=om.IndepVarComp(); ivc.add_output('loads',val=loads,units='N'); ivc.add_output('load_factor',val=1.0)
    g.add_subsystem('iv',ivc,promotes=['*']); p.model.add_subsystem('wing',g); p.setup(); p.run_model(); return p
full=mesh_for(2,7,False,fam=2); full[:,:,0]-=0.05*full[:,:,1]
ny=7; loads=np.zeros((ny,6)); loads[:,2]=2e4*(1+0.1*np.abs(np.arange(ny)-3)); loads[:,0]=1e3; loads[:,4]=5e2
p=run(full,False,loads); vm=p['wing.vonmises']; d=p['wing.disp']
print('disp mirror err', abs(d[:3,[0,2,4]]-d[::-1][:3,[0,2,4]]).max()/abs(d).max())
print('vm left', vm[:3,0]); print('vm right(rev)', vm[::-1][:3,0]); print('rel diff', abs(vm[:3]-vm[::-1][:3]).max()/abs(vm).max())
ph=run(full[:, :4].copy(),True,loads[:4]); print('half vm', ph['wing.vonmises'][:,0], 'half vs full-left', abs(ph['wing.vonmises']-vm[:3]).max()/abs(vm).max())
