import sys
sys.path.insert(0, '/repo')
import numpy as np, openmdao.api as om
from openaerostruct.geometry.utils import generate_mesh, getFullMesh
from openaerostruct.geometry.geometry_group import Geometry
full = generate_mesh({"num_y": 5, "num_x": 2, "wing_type": "rect", "symmetry": False})
left = full[:, :3, :].copy(); right = full[:, 2:, :].copy()
def geo(mesh, sym, **kw):
    s = {"name":"w","symmetry":sym,"mesh":mesh,"S_ref_type":"wetted"}; s.update(kw)
    p = om.Problem(reports=False); p.model.add_subsystem('g', Geometry(surface=s), promotes=['*']); p.setup(); p.run_model(); return p['mesh'].copy()
for kw in [dict(sweep=20.), dict(dihedral=10.), dict(taper=0.5), dict(span=12.), dict(twist_cp=np.array([3., 0.]))]:
    L = geo(left, True, **kw); R = geo(right, True, **kw); F = geo(full, False, **kw)
    Rm = R[:, ::-1, :].copy(); Rm[:,:,1]*=-1
    print(list(kw), 'left vs mirrored right', abs(L-Rm).max(), ' left vs full-left', abs(L-F[:,:3]).max(), 'full sym err', abs(F - (lambda X:(X[:, ::-1]*np.array([1,-1,1])))(F)).max())
    if abs(L-Rm).max()>1e-9: print('  L tip', L[0,0], ' R tip', R[0,-1])
