import sys, warnings
sys.path.insert(0, '/repo'); sys.path.insert(0,'.')
warnings.simplefilter('ignore')
import numpy as np, openmdao.api as om
from openaerostruct.integration.aerostruct_groups import AerostructGeometry, AerostructPoint
from openaerostruct.utils.constants import grav_constant
from t_c01 import mesh_for
def build(mesh, sym, relief=True, viscous=True, thickness_cp=None, twist_cp=None):
    surf = {"name": "wing", "symmetry": sym, "S_ref_type": "wetted", "fem_model_type": "tube",
            "thickness_cp": thickness_cp, "twist_cp": twist_cp, "mesh": mesh,
            "CL0": 0.0, "CD0": 0.015, "k_lam": 0.05, "t_over_c_cp": np.array([0.15]), "c_max_t": 0.303,
            "with_viscous": viscous, "with_wave": False, "E": 70.0e9, "G": 30.0e9, "yield": 500.0e6 / 2.5, "mrho": 3.0e3,
            "fem_origin": 0.35, "wing_weight_ratio": 2.0, "struct_weight_relief": relief, "distributed_fuel_weight": False,
            "exact_failure_constraint": True}
    prob = om.Problem(reports=False)
    ivc = om.IndepVarComp()
    for n,v,u in [("v",248.136,"m/s"),("alpha",5.0,"deg"),("Mach_number",0.84,None),("re",1e6,"1/m"),("rho",0.38,"kg/m**3"),("CT",grav_constant*17e-6,"1/s"),("R",11.165e6,"m"),("W0",0.4*3e5,"kg"),("speed_of_sound",295.4,"m/s"),("load_factor",1.0,None),("empty_cg",np.zeros(3),"m")]:
        ivc.add_output(n,val=v,units=u)
    prob.model.add_subsystem("prob_vars", ivc, promotes=["*"])
    prob.model.add_subsystem("wing", AerostructGeometry(surface=surf))
    pn="AS_point_0"
    prob.model.add_subsystem(pn, AerostructPoint(surfaces=[surf]), promotes_inputs=["v","alpha","Mach_number","re","rho","CT","R","W0","speed_of_sound","empty_cg","load_factor"])
    c=prob.model.connect; com=pn+".wing_perf"
    c("wing.local_stiff_transformed", pn+".coupled.wing.local_stiff_transformed"); c("wing.nodes", pn+".coupled.wing.nodes"); c("wing.mesh", pn+".coupled.wing.mesh")
    c("wing.radius", com+".radius"); c("wing.thickness", com+".thickness"); c("wing.nodes", com+".nodes")
    c("wing.cg_location", pn+".total_perf.wing_cg_location"); c("wing.structural_mass", pn+".total_perf.wing_structural_mass"); c("wing.t_over_c", com+".t_over_c")
    if relief: c("wing.element_mass", pn+".coupled.wing.element_mass")
    prob.setup(); prob.set_solver_print(-1)
    cp=prob.model.AS_point_0.coupled
    cp.nonlinear_solver=om.NonlinearBlockGS(use_aitken=True, maxiter=300, atol=1e-30, rtol=1e-13, err_on_non_converge=False)
    prob.run_model(); return prob
full=mesh_for(2,7,False,fam=2); full[:,:,0]-=0.05*full[:,:,1]  # make symmetric again
half=full[:, :4].copy()
ph=build(half,True,thickness_cp=np.array([0.01,0.02,0.03]),twist_cp=np.array([1.,2.,3.]))
pf=build(full,False,thickness_cp=np.array([0.01,0.02,0.03,0.02,0.01]),twist_cp=np.array([1.,2.,3.,2.,1.]))
# bspline cp mapping differs between half and full -> compare by setting thickness/twist directly? check distributions
print('thickness half', ph['wing.thickness'], 'full', pf['wing.thickness'])
print('twist half', ph['wing.geometry.twist'], 'full', pf['wing.geometry.twist'])
for k in ['AS_point_0.CL','AS_point_0.CD','AS_point_0.CM','AS_point_0.fuelburn','AS_point_0.L_equals_W','wing.structural_mass','wing.cg_location']:
    print(k, ph[k], pf[k])
print('disp err', abs(ph['AS_point_0.coupled.wing.disp']-pf['AS_point_0.coupled.wing.disp'][:4]).max(), abs(ph['AS_point_0.coupled.wing.disp']).max())
print('vm err', abs(ph['AS_point_0.wing_perf.vonmises']-pf['AS_point_0.wing_perf.vonmises'][:3]).max(), abs(ph['AS_point_0.wing_perf.vonmises']).max())
print('---- constant cps, twist baked into mesh')
def pretwist(m):
    m=m.copy(); y=np.abs(m[:,:,1]); th=np.radians(1.+0.5*y); qc=0.75*m[0]+0.25*m[-1]
    dx=m[:,:,0]-qc[:,0]; dz=m[:,:,2]-qc[:,2]
    m[:,:,0]=qc[:,0]+np.cos(th)*dx+np.sin(th)*dz; m[:,:,2]=qc[:,2]-np.sin(th)*dx+np.cos(th)*dz; return m
fullt=pretwist(full); halft=fullt[:, :4].copy()
ph=build(halft,True,thickness_cp=np.array([0.02,0.02]),twist_cp=np.array([0.,0.]))
pf=build(fullt,False,thickness_cp=np.array([0.02,0.02]),twist_cp=np.array([0.,0.]))
for k in ['AS_point_0.CL','AS_point_0.CD','AS_point_0.CM','AS_point_0.fuelburn','AS_point_0.L_equals_W','wing.structural_mass','wing.cg_location','AS_point_0.cg']:
    print(k, ph[k], pf[k], 'rel %.1e'%(abs(ph[k]-pf[k]).max()/max(abs(pf[k]).max(),1e-300)))
print('disp err', abs(ph['AS_point_0.coupled.wing.disp']-pf['AS_point_0.coupled.wing.disp'][:4]).max()/ abs(ph['AS_point_0.coupled.wing.disp']).max())
print('vm err', abs(ph['AS_point_0.wing_perf.vonmises']-pf['AS_point_0.wing_perf.vonmises'][:3]).max()/ abs(ph['AS_point_0.wing_perf.vonmises']).max())
print('vm mirror full', abs(pf['AS_point_0.wing_perf.vonmises'][:3]-pf['AS_point_0.wing_perf.vonmises'][::-1][:3]).max()/abs(pf['AS_point_0.wing_perf.vonmises']).max())
