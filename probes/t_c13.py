import sys, warnings
sys.path.insert(0, '/repo'); sys.path.insert(0,'.')
warnings.simplefilter('ignore')
import numpy as np, openmdao.api as om
from openaerostruct.geometry.geometry_group import Geometry
from t_c01 import mesh_for
def geo(mesh, sym, rap=0.25, **kw):
    s={"name":"w","symmetry":sym,"mesh":mesh.copy(),"S_ref_type":"wetted","ref_axis_pos":rap}; s.update(kw)
    p=om.Problem(reports=False); p.model.add_subsystem('g',Geometry(surface=s),promotes=['*']); p.setup(); p.run_model(); return p['mesh'].copy()
def ref(mesh, sym, rap, **kw):
    m=mesh.copy(); ny=m.shape[1]; r=ny-1 if sym else (ny-1)//2
    ax=lambda m:(1-rap)*m[0]+rap*m[-1]
    if 'taper' in kw:
        a=ax(m); s=abs(a[0,1]-a[r,1]); t=1+(kw['taper']-1)*np.abs(a[:,1]-a[r,1])/s; m=a+(m-a)*t[None,:,None]
    if 'chord_cp' in kw:
        a=ax(m); m=a+(m-a)*kw['chord_cp'][0]
    if 'sweep' in kw:
        m[:,:,0]+=np.abs(m[0,:,1]-m[0,r,1])*np.tan(np.radians(kw['sweep']))
    if 'xshear_cp' in kw: m[:,:,0]+=kw['xshear_cp'][0]
    if 'span' in kw:
        a=ax(m); prev=a[-1,1]-a[0,1]; sp=kw['span']/(2 if sym else 1); m[:,:,1]=a[:,1]/prev*sp
    if 'yshear_cp' in kw: m[:,:,1]+=kw['yshear_cp'][0]
    if 'dihedral' in kw:
        m[:,:,2]+=np.abs(m[0,:,1]-m[0,r,1])*np.tan(np.radians(kw['dihedral']))
    if 'zshear_cp' in kw: m[:,:,2]+=kw['zshear_cp'][0]
    if 'twist_cp' in kw:
        a=ax(m); th=np.radians(kw['twist_cp'][0]); d=m-a; m=a+np.stack([np.cos(th)*d[...,0]+np.sin(th)*d[...,2], d[...,1], -np.sin(th)*d[...,0]+np.cos(th)*d[...,2]],-1)
    return m
for sym in [True,False]:
    flat=mesh_for(3,4 if sym else 7,sym,fam=1)
    if not sym: flat[:,:,0]-=0.05*flat[:,:,1]
    camb=flat.copy(); camb[1,:,2]+=0.04
    for name,m in [('flat',flat),('cambered',camb)]:
        for rap in [0.25,0.0,1.0]:
            print(name,'sym' if sym else 'full',rap,'defaults', '%.1e'%abs(geo(m,sym,rap)-m).max(), end=' | ')
            for kw in [dict(taper=0.6),dict(sweep=15.),dict(dihedral=8.),dict(span=11.),dict(chord_cp=np.array([1.3,1.3])),dict(twist_cp=np.array([4.,4.])),dict(xshear_cp=np.array([.2,.2])),dict(zshear_cp=np.array([.3,.3])),dict(yshear_cp=np.array([.1,.1])), dict(taper=0.7,sweep=10.,dihedral=5.,twist_cp=np.array([3.,3.]))]:
                e=abs(geo(m,sym,rap,**kw)-ref(m,sym,rap,**kw)).max()
                print('+'.join(kw),'%.0e'%e, end=' ')
            print()
