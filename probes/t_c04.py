import sys
sys.path.insert(0, '/repo'); sys.path.insert(0,'.')
import numpy as np, openmdao.api as om
from openaerostruct.geometry.utils import generate_mesh, getFullMesh
from t_c05 import oas
from ref_vlm_proto import solve
full = generate_mesh({"num_y":7,"num_x":3,"wing_type":"rect","symmetry":False,"span":8.,"root_chord":1.5})
m = full.copy(); m[:,:,0] += 0.3*np.abs(m[:,:,1]); m[:,:,2] += 0.1*np.abs(m[:,:,1]) + 0.02*m[:,:,0]**2
half = m[:, :4].copy()
ph = oas([half],[True], 6., 0., 50., 1.1)
pf = oas([m],[False], 6., 0., 50., 1.1)
print('CL', ph['ap.CL'], pf['ap.CL'], 'CD', ph['ap.CD'], pf['ap.CD'], 'CM', ph['ap.CM'], pf['ap.CM'])
print('secf err', abs(ph['ap.aero_states.s0_sec_forces'] - pf['ap.aero_states.s0_sec_forces'][:, :3]).max())
# right half
right = m[:, 3:].copy()
pr = oas([right],[True], 6., 0., 50., 1.1)
print('right CL', pr['ap.CL'], 'secf mirror err', abs(pr['ap.aero_states.s0_sec_forces'][:, ::-1]*np.array([1,-1,1]) - ph['ap.aero_states.s0_sec_forces']).max())
# off-plane symmetric surface
off = half.copy(); off[:,:,1] -= 2.0
fulloff_L = off; fulloff_R = off[:, ::-1].copy(); fulloff_R[:,:,1]*=-1
po = oas([off],[True], 6.,0.,50.,1.1)
pfo = oas([fulloff_L, fulloff_R],[False,False],6.,0.,50.,1.1)
print('offplane CL half', po['ap.CL'], 'full', pfo['ap.CL'])
