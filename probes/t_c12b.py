import sys, time
sys.path.insert(0, '/repo'); sys.path.insert(0,'.')
import numpy as np, openmdao.api as om
import t_as
def run(nl, lin, mode='rev', iprint=-1):
    p=t_as.build(2,5,True); p.setup(mode=mode); p.set_solver_print(-1)
    c=p.model.AS_point_0.coupled
    if nl=='newton': c.nonlinear_solver=om.NewtonSolver(solve_subsystems=True, maxiter=20, atol=1e-8, rtol=1e-12, err_on_non_converge=False, iprint=iprint)
    else: c.nonlinear_solver=om.NonlinearBlockGS(use_aitken=True, maxiter=200, atol=1e-12, rtol=1e-30, err_on_non_converge=True)
    if lin=='direct': c.linear_solver=om.DirectSolver(assemble_jac=True)
    elif lin=='lbgs': c.linear_solver=om.LinearBlockGS(maxiter=500, atol=1e-14, rtol=1e-14)
    elif lin=='krylov': c.linear_solver=om.ScipyKrylov(maxiter=1000, atol=1e-14, rtol=1e-14, iprint=iprint); c.linear_solver.precon=om.LinearRunOnce()
    elif lin=='krylov_noprecon': c.linear_solver=om.ScipyKrylov(maxiter=1000, atol=1e-14, rtol=1e-14, iprint=iprint)
    p.run_model()
    T=p.compute_totals(of=["AS_point_0.fuelburn","AS_point_0.wing_perf.failure","AS_point_0.CL"], wrt=["alpha","wing.twist_cp","wing.thickness_cp"])
    return p,T
p,Tref=run('aitken','direct','fwd')
for lin in ['krylov','krylov_noprecon']:
  for mode in ['fwd','rev']:
    p,T=run('aitken',lin,mode)
    print(lin, mode)
    for k in Tref: print('   ',k, Tref[k].ravel(), T[k].ravel())
p,T=run('newton','direct','fwd',iprint=2)
