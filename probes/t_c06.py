import sys
sys.path.insert(0, '/repo'); sys.path.insert(0,'.')
import numpy as np
from openaerostruct.geometry.utils import generate_mesh
from t_c08 import oas
full = generate_mesh({"num_y":7,"num_x":3,"wing_type":"rect","symmetry":False,"span":8.,"root_chord":1.5})
m = full.copy(); m[:,:,0] += 0.3*np.abs(m[:,:,1])+0.05*m[:,:,1]; m[:,:,2] += 0.1*np.abs(m[:,:,1]) + 0.02*m[:,:,0]**2
p1 = oas([m],[False], 5., 50., 1.1)
for k in [300, 1e3, 3e3, 39.37, 1000/0.3048]:
    try:
        pk = oas([m*k],[False], 5., 50., 1.1)
        print(k, 'CL rel', abs(pk['ap.CL']-p1['ap.CL'])/abs(p1['ap.CL']), 'F rel', abs(pk['ap.aero_states.s0_sec_forces']/k**2 - p1['ap.aero_states.s0_sec_forces']).max()/abs(p1['ap.aero_states.s0_sec_forces']).max(), 'CM', abs(pk['ap.CM']-p1['ap.CM']).max())
    except Exception as e: print(k, 'EXC', type(e).__name__, str(e)[:80])
half=m[:,:4].copy()
p1 = oas([half],[True], 5., 50., 1.1, ground=True, h=3.)
for k in [1e-3,0.5,100]:
    pk = oas([half*k],[True], 5., 50., 1.1, ground=True, h=3.*k)
    print('ground',k, abs(pk['ap.CL']-p1['ap.CL'])/abs(p1['ap.CL']))
