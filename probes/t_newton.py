import sys
sys.path.insert(0, '/repo'); sys.path.insert(0,'.')
import numpy as np, openmdao.api as om
import t_as
p=t_as.build(2,5,True); p.setup(mode='fwd'); p.set_solver_print(-1)
c=p.model.AS_point_0.coupled
c.nonlinear_solver=om.NewtonSolver(solve_subsystems=True, maxiter=10, atol=1e-30, rtol=1e-10, err_on_non_converge=False, iprint=2)
c.nonlinear_solver.linesearch=None
c.linear_solver=om.DirectSolver(assemble_jac=True)
p.run_model(); print(p['AS_point_0.fuelburn'], p['AS_point_0.wing_perf.failure'])
