import sys
sys.path.insert(0, '/repo')
import numpy as np, openmdao.api as om
from openaerostruct.geometry.utils import generate_mesh, getFullMesh
from openaerostruct.geometry.geometry_mesh_transformations import Taper, Rotate, Sweep, Dihedral
from openaerostruct.functionals.moment_coefficient import MomentCoefficient

# 1. Taper at 1.0
mesh = generate_mesh({"num_y": 5, "num_x": 2, "wing_type": "rect", "symmetry": True})
for tv in [1.0, 0.9]:
    p = om.Problem(reports=False); p.model.add_subsystem('c', Taper(val=tv, mesh=mesh, symmetry=True), promotes=['*'])
    p.setup(force_alloc_complex=True); p.run_model()
    J = p.compute_totals(of=['mesh'], wrt=['taper'])['mesh','taper']
    p.set_complex_step_mode(True); p['taper'] = tv + 1e-30j; p.run_model(); cs = p['mesh'].imag.ravel()/1e-30; p.set_complex_step_mode(False)
    print('taper', tv, 'analytic max', abs(J).max(), 'cs max', abs(cs).max())
    # FD
    p['taper']=tv+1e-6; p.run_model(); a=p['mesh'].copy(); p['taper']=tv-1e-6; p.run_model(); b=p['mesh'].copy(); print('  fd max', abs((a-b)/2e-6).max())

# 2. M doubling
surf = {"name":"wing","symmetry":True,"mesh":mesh}
p = om.Problem(reports=False); p.model.add_subsystem('c', MomentCoefficient(surfaces=[surf]), promotes=['*']); p.setup(); 
rng=np.random.default_rng(1)
p['wing_sec_forces']=rng.random((1,2,3)); p['wing_b_pts']=rng.random((1,3,3))
p.run_model()
for i in range(3):
    J=p.compute_totals(of=['M','CM'], wrt=['cg','wing_sec_forces'])
    print('M/cg', J['M','cg'][1], 'CM/cg', J['CM','cg'][1])

# 5. Rotate at zero twist on cambered mesh
m = generate_mesh({"num_y": 5, "num_x": 3, "wing_type": "rect", "symmetry": True})
m[1,:,2] += 0.05  # camber
m[:,:,2] += 0.1*np.abs(m[:,:,1])  # dihedral
p = om.Problem(reports=False); p.model.add_subsystem('c', Rotate(val=np.zeros(3), mesh_shape=m.shape, symmetry=True), promotes=['*']); p.setup(); p['in_mesh']=m; p.run_model()
print('rotate noop err', abs(p['mesh']-m).max())
