import sys, warnings
sys.path.insert(0, '/repo'); sys.path.insert(0,'.')
import numpy as np, openmdao.api as om
from openaerostruct.geometry.utils import generate_mesh
from openaerostruct.geometry.geometry_group import Geometry, build_sections
from openaerostruct.structures.struct_groups import SpatialBeamAlone
from openaerostruct.integration.aerostruct_groups import AerostructGeometry
from openaerostruct.aerodynamics.aero_groups import AeroPoint
from t_c01 import mesh_for
def expect(exc, f, label):
    try:
        with warnings.catch_warnings():
            warnings.simplefilter('ignore'); f()
        print('NOT RAISED', label)
    except exc as e: print('ok', label, type(e).__name__)
    except Exception as e: print('OTHER', label, type(e).__name__, str(e)[:80])
for ny in [2,4,6]: expect(ValueError, lambda: generate_mesh({"num_x":2,"num_y":ny,"wing_type":"rect","symmetry":True}), 'even num_y %d'%ny)
for wt in ['rectangle','Rect','crm','']: expect(NameError, lambda: generate_mesh({"num_x":2,"num_y":5,"wing_type":wt,"symmetry":True}), 'wing_type %r'%wt)
m=mesh_for(2,4,True)
base={"name":"w","symmetry":True,"mesh":m,"S_ref_type":"wetted","E":7e10,"G":3e10,"yield":2e8,"mrho":3e3,"fem_origin":0.35,"wing_weight_ratio":1.,"struct_weight_relief":False,"distributed_fuel_weight":False,"exact_failure_constraint":False,"t_over_c_cp":np.array([0.12])}
def setup(group):
    p=om.Problem(reports=False); p.model.add_subsystem('g',group); p.setup()
for ft in ['Tube','box','']:
    expect(NameError, lambda: setup(SpatialBeamAlone(surface=dict(base,fem_model_type=ft,thickness_cp=np.array([.01])))), 'SpatialBeamAlone fem %r'%ft)
    expect(NameError, lambda: setup(AerostructGeometry(surface=dict(base,fem_model_type=ft,thickness_cp=np.array([.01])))), 'AerostructGeometry fem %r'%ft)
for k in ['skin_thickness_cp','spar_thickness_cp']:
    expect(NameError, lambda: setup(SpatialBeamAlone(surface=dict(base,fem_model_type='wingbox',**{k:np.array([.01,.01])}))), 'only '+k)
mf=mesh_for(2,5,False)
aero={"name":"w","symmetry":False,"mesh":mf,"S_ref_type":"wetted","CL0":0,"CD0":0,"with_viscous":False,"with_wave":False,"k_lam":0.05,"c_max_t":0.3,"groundplane":True}
expect(ValueError, lambda: setup(AeroPoint(surfaces=[aero])), 'ground w/o symmetry')
# warnings
def warns(f):
    with warnings.catch_warnings(record=True) as w:
        warnings.simplefilter('always'); f(); return [str(x.message)[:60] for x in w if issubclass(x.category,RuntimeWarning)]
print(warns(lambda: generate_mesh({"num_x":2,"num_y":5,"wing_type":"rect","symmetry":True,"bogus":1})))
print(warns(lambda: setup(Geometry(surface=dict(name='w',symmetry=True,mesh=m,S_ref_type='wetted',bogus_key=3)))))
print(warns(lambda: setup(Geometry(surface=dict(name='w',symmetry=True,mesh=m,S_ref_type='wetted')))))
# multi-section wrong lengths
ms={"name":"s","is_multi_section":True,"num_sections":2,"sec_name":["a","b"],"symmetry":True,"S_ref_type":"wetted","taper":np.array([1.,1.]),"span":np.array([1.,1.]),"sweep":np.array([0.,0.]),"root_chord":1.,"meshes":"gen-meshes","nx":2,"ny":np.array([2,2])}
for k in ['ny','taper','span','sweep']:
    expect(ValueError, lambda: build_sections(dict(ms,**{k:np.array([1.,1.,1.]) if k!='ny' else np.array([2,2,2])})), 'multisec long '+k)
    expect(ValueError, lambda: build_sections(dict(ms,**{k:np.array([1.]) if k!='ny' else np.array([2])})), 'multisec short '+k)
expect(ValueError, lambda: build_sections(dict(ms,sec_name=['a'])), 'sec_name short')
expect(ValueError, lambda: build_sections(dict(ms,meshes=[m])), 'meshes short')
