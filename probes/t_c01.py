import sys, warnings, itertools, time
sys.path.insert(0, '/repo')
warnings.simplefilter('ignore')
import numpy as np, openmdao.api as om
from openaerostruct.geometry.utils import generate_mesh

def gen(shape, k, lo=0.5, hi=1.5):
    n=int(np.prod(shape)) if shape else 1
    x=(np.arange(1,n+1)*0.6180339887498949*(k+1) + 0.137*k) % 1.0
    return (lo+(hi-lo)*x).reshape(shape)

def mesh_for(nx, ny, sym, side='left', fam=1):
    full = generate_mesh({"num_y":2*ny-1 if sym else ny,"num_x":nx,"wing_type":"rect","symmetry":False,"span":8.,"root_chord":1.5})
    m=full.copy()
    if fam>=1: m[:,:,0]+=0.3*np.abs(m[:,:,1]); m[:,:,0]=m[:,:,0]*(1-0.04*np.abs(m[:,:,1]))
    if fam>=2: m[:,:,2]+=0.1*np.abs(m[:,:,1])+0.02*(m[:,:,0]-m[0,:,0])**2
    if sym:
        return m[:, :ny].copy() if side=='left' else m[:, ny-1:].copy()
    m[:,:,0]+=0.05*m[:,:,1]
    return m

def richardson(f, x0, i, h):
    def d(h):
        x=x0.copy(); x.flat[i]=x0.flat[i]+h; a=f(x); x.flat[i]=x0.flat[i]-h; b=f(x); return (a-b)/(2*h)
    d1=d(h); d2=d(h/2); d4=d(h/4)
    r1=(4*d2-d1)/3; r2=(4*d4-d2)/3; R=(16*r2-r1)/15
    return R, np.abs(R-r2)

def check(comp, inputs=None, label='', skip_wrt=(), hrel=1e-3, mode='fwd'):
    p=om.Problem(reports=False); p.model.add_subsystem('c',comp,promotes=['*']); p.setup(mode=mode); p.final_setup()
    ins=[n for n in p.model.c._var_rel_names['input']]
    outs=[n for n in p.model.c._var_rel_names['output']]
    for k,n in enumerate(ins):
        v=p.get_val(n)
        if inputs and n in inputs: p.set_val(n, inputs[n])
        elif inputs and '*' in inputs: p.set_val(n, inputs['*'](n, v.shape, k))
        else: p.set_val(n, gen(v.shape,k))
    p.run_model()
    wrts=[n for n in ins if n not in skip_wrt]
    T=p.compute_totals(of=outs, wrt=wrts)
    def F(name):
        def f(x):
            p.set_val(name,x); p.run_model(); return np.concatenate([p.get_val(o).ravel() for o in outs])
        return f
    worst=(0,None); nbad=0; nun=0; ntot=0
    for w in wrts:
        x0=p.get_val(w).copy(); f=F(w)
        an=np.vstack([T[o,w].reshape(p.get_val(o).size,-1) for o in outs])
        FD=np.zeros_like(an); EST=np.zeros_like(an)
        for i in range(x0.size):
            h=hrel*max(abs(x0.flat[i]),1.0)
            FD[:,i],EST[:,i]=richardson(f,x0,i,h)
        p.set_val(w,x0); p.run_model()
        S=np.maximum(np.abs(FD).max(axis=1,keepdims=True), 1e-300)
        S=np.maximum(S, 1e-9*np.abs(FD).max())
        tol=1e-6*S+20*EST+1e-13
        unrel=EST>1e-3*S
        bad=(np.abs(an-FD)>tol)&~unrel
        ntot+=an.size; nbad+=bad.sum(); nun+=unrel.sum()
        r=(np.abs(an-FD)/S).max()
        if r>worst[0]: worst=(r,w)
    print('%-40s entries %6d bad %5d unreliable %4d worst %.1e (%s)'%(label or type(comp).__name__, ntot, nbad, nun, worst[0], worst[1]))
    return nbad

if __name__=='__main__':
    from openaerostruct.geometry.geometry_mesh_transformations import Taper,ScaleX,Sweep,ShearX,Stretch,ShearY,Dihedral,ShearZ,Rotate
    from openaerostruct.aerodynamics.geometry import VLMGeometry
    from openaerostruct.aerodynamics.vortex_mesh import VortexMesh
    from openaerostruct.aerodynamics.eval_mtx import EvalVelMtx
    from openaerostruct.aerodynamics.lift_drag import LiftDrag
    from openaerostruct.aerodynamics.viscous_drag import ViscousDrag
    from openaerostruct.transfer.load_transfer import LoadTransfer
    from openaerostruct.structures.vonmises_tube import VonMisesTube
    from openaerostruct.structures.wing_weight_loads import StructureWeightLoads
    from openaerostruct.functionals.moment_coefficient import MomentCoefficient
    t0=time.time()
    for sym,ny in [(True,3),(False,5)]:
        for nx in [2,3]:
            m=mesh_for(nx,ny,sym,fam=2); ms=m.shape
            tag='sym' if sym else 'full'
            for rap in [0.25,0.6]:
                check(Taper(val=1.0,mesh=m,symmetry=sym,ref_axis_pos=rap),{'taper':0.8},'Taper %s nx%d rap%.2f'%(tag,nx,rap))
                check(ScaleX(val=np.ones(ny),mesh_shape=ms,ref_axis_pos=rap),{'in_mesh':m},'ScaleX %s nx%d rap%.2f'%(tag,nx,rap))
                check(Stretch(val=8.,mesh_shape=ms,symmetry=sym,ref_axis_pos=rap),{'in_mesh':m,'span':9.},'Stretch %s nx%d rap%.2f'%(tag,nx,rap))
                check(Rotate(val=np.zeros(ny),mesh_shape=ms,symmetry=sym,ref_axis_pos=rap),{'in_mesh':m,'twist':gen((ny,),3,-4,5)},'Rotate %s nx%d rap%.2f'%(tag,nx,rap))
            check(Sweep(val=0.,mesh_shape=ms,symmetry=sym),{'in_mesh':m,'sweep':12.},'Sweep %s nx%d'%(tag,nx))
            check(Dihedral(val=0.,mesh_shape=ms,symmetry=sym),{'in_mesh':m,'dihedral':7.},'Dihedral %s nx%d'%(tag,nx))
            for st in ['wetted','projected']:
                s={"name":"w","symmetry":sym,"mesh":m,"S_ref_type":st}
                check(VLMGeometry(surface=s),{'def_mesh':m},'VLMGeometry %s nx%d %s'%(tag,nx,st))
            s={"name":"w","symmetry":sym,"mesh":m,"fem_model_type":"tube","fem_origin":0.35,"E":7e10,"G":3e10}
            check(LoadTransfer(surface=s),{'def_mesh':m},'LoadTransfer %s nx%d'%(tag,nx))
            check(LiftDrag(surface=s),{'alpha':4.,'beta':3.},'LiftDrag %s nx%d'%(tag,nx))
            check(MomentCoefficient(surfaces=[s]),None,'MomentCoefficient %s nx%d'%(tag,nx))
    print('time',time.time()-t0)
