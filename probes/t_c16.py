import sys, warnings
sys.path.insert(0, '/repo'); sys.path.insert(0,'.')
warnings.simplefilter('ignore')
import numpy as np, openmdao.api as om
from t_c01 import gen, mesh_for
from openaerostruct.structures.weight import Weight
from openaerostruct.structures.structural_cg import StructuralCG
from openaerostruct.structures.wing_weight_loads import StructureWeightLoads
from openaerostruct.structures.fuel_loads import FuelLoads
from openaerostruct.structures.compute_point_mass_loads import ComputePointMassLoads
from openaerostruct.structures.compute_thrust_loads import ComputeThrustLoads
from openaerostruct.structures.failure_ks import FailureKS
from openaerostruct.structures.vonmises_tube import VonMisesTube
from openaerostruct.aerodynamics.wave_drag import WaveDrag
g=9.80665
def run(comp, **ins):
    p=om.Problem(reports=False); p.model.add_subsystem('c',comp,promotes=['*']); p.setup()
    for k,v in ins.items(): p.set_val(k,v)
    p.run_model(); return p
for sym,ny in [(True,4),(False,5)]:
    m=mesh_for(2,ny,sym,fam=2); nodes=0.65*m[0]+0.35*m[-1]
    s={"name":"w","symmetry":sym,"mesh":m,"fem_model_type":"tube","E":7e10,"G":3e10,"yield":2e8,"mrho":3e3,"wing_weight_ratio":1.5,"Wf_reserve":500.,"n_point_masses":2}
    A=gen((ny-1,),1,1e-2,2e-2)
    p=run(Weight(surface=s),A=A,nodes=nodes); L=np.linalg.norm(np.diff(nodes,axis=0),axis=1); em=3e3*1.5*A*L
    print('mass err', abs(p['structural_mass']-em.sum()*(2 if sym else 1)), abs(p['element_mass']-em).max())
    pc=run(StructuralCG(surface=s),nodes=nodes,structural_mass=p['structural_mass'],element_mass=em)
    mid=0.5*(nodes[1:]+nodes[:-1]); cg=(em[:,None]*mid).sum(0)/em.sum()
    if sym: cg[1]=0
    print('cg', pc['cg_location'], cg)
    pw=run(StructureWeightLoads(surface=s),element_mass=em,nodes=nodes,load_factor=2.5); Lw=pw['struct_weight_loads']
    print('wloads sumF', Lw[:,:3].sum(0), -2.5*g*em.sum(), 'moment about 0:', (np.cross(nodes,Lw[:,:3])+Lw[:,3:]).sum(0), 'expected', np.cross(mid, np.outer(em,[0,0,-2.5*g])).sum(0))
    vols=gen((ny-1,),2,0.5,1.)
    pf=run(FuelLoads(surface=s),fuel_vols=vols,nodes=nodes,fuel_mass=1e4,load_factor=2.5); Lf=pf['fuel_weight_loads']
    W=(1e4+500)*g*2.5/(2 if sym else 1)
    print('fuel sumF', Lf[:,:3].sum(0).real, -W, 'moment', (np.cross(nodes,Lf[:,:3])+Lf[:,3:]).sum(0).real, 'expected', np.cross(mid, np.outer(vols/vols.sum()*W,[0,0,-1.])).sum(0))
    loc=np.array([[1.0,-2.2,0.3],[0.5,-3.7,-0.4]]); pm=np.array([800.,300.])
    pp=run(ComputePointMassLoads(surface=s),point_mass_locations=loc,point_masses=pm,nodes=nodes,load_factor=2.5); Lp=pp['loads_from_point_masses']
    print('pm sumF', Lp[:,:3].sum(0), -2.5*g*pm.sum(), 'moment', (np.cross(nodes,Lp[:,:3])+Lp[:,3:]).sum(0), 'expected', np.cross(loc,np.outer(pm,[0,0,-2.5*g])).sum(0))
    pt=run(ComputeThrustLoads(surface=s),point_mass_locations=loc,engine_thrusts=np.array([1e4,2e4]),nodes=nodes); Lt=pt['loads_from_thrusts']
    print('thrust sumF', Lt[:,:3].sum(0), 'moment', (np.cross(nodes,Lt[:,:3])+Lt[:,3:]).sum(0), 'expected', np.cross(loc,np.outer([1e4,2e4],[-1,0,0.])).sum(0))
# KS bound
for mag in [0,1,1e6,1e9,1e12]:
    for N in [1,3,8]:
        s={"name":"w","symmetry":False,"mesh":np.zeros((2,N+1,3)),"fem_model_type":"tube","yield":2e8}
        vm=mag*gen((N,2),1,0.1,1.0)
        p=run(FailureKS(surface=s),vonmises=vm); f=vm/2e8-1; ks=p['failure'][0]
        ok = (ks>=f.max()-1e-12) and (ks<=f.max()+np.log(2*N)/100+1e-12) and np.isfinite(ks)
        if not ok: print('KS bad',mag,N,ks,f.max())
print('KS done')
# wave drag sym factor
m=mesh_for(2,4,True); 
for sym in [True,False]:
    s={"name":"w","symmetry":sym,"mesh":m,"with_wave":True}
    p=run(WaveDrag(surface=s),Mach_number=0.9,CL=0.5,t_over_c=0.12*np.ones(3),widths=np.ones(3),lengths_spanwise=1.1*np.ones(3),chords=np.ones(4)); print('CDw sym',sym,p['CDw'])
