import sys, warnings, time
sys.path.insert(0, '/repo'); sys.path.insert(0,'.')
warnings.simplefilter('ignore')
import numpy as np, openmdao.api as om
from t_c01 import check, gen, mesh_for
from openaerostruct.structures.transform import Transform
from openaerostruct.structures.length import Length
from openaerostruct.structures.local_stiff import LocalStiff
from openaerostruct.structures.local_stiff_permuted import LocalStiffPermuted
from openaerostruct.structures.local_stiff_transformed import LocalStiffTransformed
from openaerostruct.structures.fem import FEM
from openaerostruct.structures.weight import Weight
from openaerostruct.structures.structural_cg import StructuralCG
from openaerostruct.structures.wing_weight_loads import StructureWeightLoads
from openaerostruct.structures.vonmises_tube import VonMisesTube
from openaerostruct.structures.failure_ks import FailureKS
from openaerostruct.structures.section_properties_tube import SectionPropertiesTube
from openaerostruct.structures.energy import Energy
from openaerostruct.structures.compute_nodes import ComputeNodes
from openaerostruct.structures.create_rhs import CreateRHS
from openaerostruct.transfer.displacement_transfer import DisplacementTransfer
from openaerostruct.transfer.compute_transformation_matrix import ComputeTransformationMatrix
from openaerostruct.functionals.total_lift_drag import TotalLiftDrag
from openaerostruct.functionals.breguet_range import BreguetRange
from openaerostruct.functionals.equilibrium import Equilibrium
from openaerostruct.functionals.center_of_gravity import CenterOfGravity
from openaerostruct.common.atmos_comp import AtmosComp
from openaerostruct.common.reynolds_comp import ReynoldsComp
from openaerostruct.geometry.radius_comp import RadiusComp
from openaerostruct.geometry.monotonic_constraint import MonotonicConstraint
from openaerostruct.geometry.geometry_unification import GeomMultiUnification
from openaerostruct.geometry.geometry_multi_join import GeomMultiJoin
t0=time.time()
for sym,ny in []:
    m=mesh_for(2,ny,sym,fam=2); tag='%s ny%d'%('sym' if sym else 'full',ny)
    s={"name":"w","symmetry":sym,"mesh":m,"fem_model_type":"tube","fem_origin":0.35,"E":7e10,"G":3e10,"yield":2e8,"mrho":3e3,"wing_weight_ratio":1.5,"exact_failure_constraint":False,"struct_weight_relief":True,"distributed_fuel_weight":False}
    nodes=0.65*m[0]+0.35*m[-1]
    check(ComputeNodes(surface=s),{'mesh':m},'ComputeNodes '+tag)
    check(Transform(surface=s),{'nodes':nodes},'Transform '+tag)
    check(Length(surface=s),{'nodes':nodes},'Length '+tag)
    check(LocalStiff(surface=s),None,'LocalStiff '+tag)
    check(LocalStiffPermuted(surface=s),None,'LocalStiffPermuted '+tag)
    check(LocalStiffTransformed(surface=s),None,'LocalStiffTransformed '+tag)
    # FEM: need SPD-ish local stiffness: build from chain
    from openaerostruct.structures.assemble_k_group import AssembleKGroup
    p=om.Problem(reports=False); p.model.add_subsystem('k',AssembleKGroup(surface=s),promotes=['*']); p.setup(); p.set_val('nodes',nodes); p.set_val('A',gen((ny-1,),1,1e-2,2e-2)); p.set_val('Iy',gen((ny-1,),2,1e-4,2e-4)); p.set_val('Iz',gen((ny-1,),3,2e-4,3e-4)); p.set_val('J',gen((ny-1,),4,3e-4,4e-4)); p.run_model(); K=p['local_stiff_transformed'].copy()
    f=np.zeros(6*ny+6); f[:6*ny]=gen((6*ny,),5,-1e4,1e4)
    for mode in ['fwd','rev']:
        check(FEM(surface=s),{'local_stiff_transformed':K,'forces':f},'FEM %s '%mode+tag, mode=mode, hrel=1e-3)
    check(Weight(surface=s),{'nodes':nodes},'Weight '+tag)
    check(StructuralCG(surface=s),{'nodes':nodes},'StructuralCG '+tag)
    check(StructureWeightLoads(surface=s),{'nodes':nodes,'load_factor':2.5},'StructureWeightLoads '+tag)
    check(VonMisesTube(surface=s),{'nodes':nodes,'disp':gen((ny,6),3,-1e-2,1e-2)},'VonMisesTube '+tag)
    check(FailureKS(surface=s),{'vonmises':gen((ny-1,2),3,1e8,3e8)},'FailureKS '+tag)
    check(SectionPropertiesTube(surface=s),{'radius':gen((ny-1,),1,0.1,0.2),'thickness':gen((ny-1,),2,0.01,0.02)},'SectionPropertiesTube '+tag)
    check(Energy(surface=s),None,'Energy '+tag)
    check(CreateRHS(surface=s),{'total_loads':gen((ny,6),1,10,100)},'CreateRHS '+tag)
    check(DisplacementTransfer(surface=s),None,'DisplacementTransfer '+tag)
    check(ComputeTransformationMatrix(surface=s),{'disp':gen((ny,6),1,-0.1,0.1)},'ComputeTransformationMatrix '+tag)
    check(RadiusComp(surface=s),{'mesh':m},'RadiusComp '+tag)
    check(MonotonicConstraint(surface=s,var_name='x'),None,'MonotonicConstraint '+tag)
for ns in [1,2,3]:
    S=[{"name":"s%d"%i,"symmetry":False,"mesh":mesh_for(2,3,False)} for i in range(ns)]
    check(TotalLiftDrag(surfaces=S),None,'TotalLiftDrag %d'%ns)
    check(BreguetRange(surfaces=S),{'R':3e6,'CT':1e-4,'speed_of_sound':300.,'Mach_number':0.8,'CL':0.5,'CD':0.03,'W0':1e4},'BreguetRange %d'%ns)
    check(Equilibrium(surfaces=S),None,'Equilibrium %d'%ns)
    check(CenterOfGravity(surfaces=S),{'total_weight':1e5,'fuelburn':100.,'W0':5e3,'load_factor':1.},'CenterOfGravity %d'%ns)
check(AtmosComp(),{'altitude':33123.,'Mach_number':0.8},'AtmosComp', hrel=1e-4)
check(ReynoldsComp(),None,'ReynoldsComp')
secs=[{"name":"s0","mesh":mesh_for(2,3,False)},{"name":"s1","mesh":mesh_for(3,4,True)[:2]+np.array([0,8.,0])},{"name":"s2","mesh":mesh_for(2,3,False)+np.array([0,16.,0])}]
for shift in [True,False]:
    check(GeomMultiUnification(sections=secs,surface_name='w',shift_uni_mesh=shift),None,'GeomMultiUnification shift%d'%shift)
check(GeomMultiJoin(sections=secs,dim_constr=[np.array([1,0,1]),np.array([1,0,1])]),None,'GeomMultiJoin')
print('time',time.time()-t0)
