import sys, io, contextlib, hashlib, collections, time
sys.path.insert(0, '/repo'); sys.path.insert(0,'.')
import numpy as np, openmdao.api as om, scipy.sparse as sp
from t_aero import build
OFS=["aero_point_0.CL","aero_point_0.CD","aero_point_0.CM"]; WRT=["alpha","wing.twist_cp","v","cg"]
POINTS={0:dict(alpha=5.,v=248.), 1:dict(alpha=2.,v=100.), 2:dict(alpha=-3., v=60.)}
def leaves(obj, depth=0):
    if isinstance(obj, np.ndarray) and obj.dtype.kind in 'fc': yield obj
    elif sp.issparse(obj): yield obj.data
    elif isinstance(obj,(float,np.floating)): yield np.array([obj])
    elif isinstance(obj,(tuple,list)) and depth<3:
        for o in obj: yield from leaves(o, depth+1)
    elif isinstance(obj,dict) and depth<3:
        for k in sorted(obj, key=str): yield from leaves(obj[k], depth+1)
def digest(p):
    h=hashlib.sha256()
    for s in p.model.system_iter(recurse=True, include_self=True):
        if isinstance(s, om.Group): continue
        for k,v in sorted(vars(s).items()):
            if k.startswith('_') and k not in ('_lup',): continue
            for a in leaves(v): h.update(k.encode()); h.update(np.ascontiguousarray(a).tobytes())
        jac=getattr(s,'_jacobian',None)
        if jac is not None:
            for key in sorted(jac._subjacs_info):
                sj=jac._subjacs_info[key]
                val = sj.info['val'] if hasattr(sj,'info') else sj['val']
                h.update(np.ascontiguousarray(val.data if sp.issparse(val) else val).tobytes())
    for n in ('_outputs','_inputs','_residuals'):
        h.update(getattr(p.model,n).asarray().tobytes())
    return h.hexdigest()
def apply(p, op):
    if op[0]=='goto':
        for k,v in POINTS[op[1]].items(): p.set_val(k,v)
        p.run_model(); return None
    if op[0]=='lin': p.model.run_linearize(); return None
    if op[0]=='tot': return p.compute_totals(of=OFS, wrt=WRT)  # mode from setup
    if op[0]=='chk':
        with contextlib.redirect_stdout(io.StringIO()): p.check_partials(compact_print=True, out_stream=None)
        return None
def fresh(hist, mode='rev'):
    p=build(2,5,True); p.setup(mode=mode); 
    out=None
    for op in hist: out=apply(p,op)
    return p,out
OPS=[('goto',0),('goto',1),('lin',),('tot',),('chk',)]
t0=time.time()
p,_=fresh([('goto',0)]); seen={digest(p):[('goto',0)]}; frontier=collections.deque([[('goto',0)]]); trans=0
while frontier and trans<400:
    hist=frontier.popleft()
    for op in OPS:
        h2=hist+[op]; p,out=fresh(h2); trans+=1; d=digest(p)
        if d not in seen: seen[d]=h2; frontier.append(h2)
print('states',len(seen),'transitions',trans,'frontier',len(frontier),'maxdepth',max(len(v) for v in seen.values()),'time',time.time()-t0)
for d,h in list(seen.items())[:12]: print(h)
