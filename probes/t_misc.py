import sys, warnings
sys.path.insert(0, '/repo')
import numpy as np, openmdao.api as om
warnings.simplefilter('ignore')
# (d) atmos
from openaerostruct.common.atmos_group import AtmosGroup
p=om.Problem(reports=False); p.model.add_subsystem('a',AtmosGroup(),promotes=['*']); p.setup()
worst=[0,0,0]
from openaerostruct.common.atmos_comp import USatm1976Data as D
print('alt range', D.alt.min(), D.alt.max(), len(D.alt))
for h in np.linspace(D.alt.min(), D.alt.max(), 400):
    p.set_val('altitude',h,units='ft'); p.set_val('Mach_number',0.7); p.run_model()
    T=p.get_val('T',units='K')[0]; P=p.get_val('P',units='Pa')[0]; rho=p.get_val('rho',units='kg/m**3')[0]; a=p.get_val('speed_of_sound',units='m/s')[0]; v=p.get_val('v',units='m/s')[0]; mu=p.get_val('mu',units='Pa*s')[0]; re=p.get_val('re',units='1/m')[0]
    e1=abs(P/(rho*287.053*T)-1); e2=abs(a/np.sqrt(1.4*287.053*T)-1); e3=abs(re/(rho*v/mu)-1); e4=abs(v/(0.7*a)-1)
    mu_s=1.458e-6*T**1.5/(T+110.4); e5=abs(mu/mu_s-1)
    worst=[max(worst[0],e1),max(worst[1],e2),max(worst[2],max(e3,e4))]; 
print('ideal gas err',worst[0],'sound',worst[1],'re/v',worst[2], 'sutherland last', e5)
# (c) viscous monotonic
from openaerostruct.aerodynamics.viscous_drag import ViscousDrag
from openaerostruct.geometry.utils import generate_mesh
mesh=generate_mesh({"num_y":5,"num_x":2,"wing_type":"rect","symmetry":False})
bad=0; tot=0
for klam in [0.0,0.05,0.3,0.7,1.0]:
    s={"name":"w","symmetry":False,"mesh":mesh,"with_viscous":True,"k_lam":klam,"c_max_t":0.303}
    p=om.Problem(reports=False); p.model.add_subsystem('c',ViscousDrag(surface=s),promotes=['*']); p.setup()
    p.set_val('lengths',np.ones(5)); p.set_val('widths',2.5*np.ones(4)); p.set_val('lengths_spanwise',2.5*np.ones(4)); p.set_val('S_ref',10.); p.set_val('t_over_c',0.12*np.ones(4)); p.set_val('Mach_number',0.5)
    prev=None
    for re in np.logspace(4.5,9,40):
        if klam>0 and re*klam<1e3: continue
        p.set_val('re',re); p.run_model(); c=p['CDv'][0]; tot+=1
        if prev is not None and not (c<prev): bad+=1; print('nonmono re',klam,re,c,prev)
        if not c>0: print('nonpos',klam,re,c)
        prev=c
print('viscous Re monotone violations',bad,'of',tot)
# (b) multisection
import openaerostruct.geometry.geometry_mesh_gen as mg
from openaerostruct.geometry.geometry_unification import unify_mesh
for sym,nsec,root in [(True,2,None),(True,3,None),(False,2,0),(False,2,1),(False,3,1)]:
    s={"num_sections":nsec,"symmetry":sym,"taper":np.array([0.8,0.6,0.9][:nsec]),"span":np.array([2.,1.5,1.][:nsec]),"sweep":np.array([0.1,0.2,0.05][:nsec]),"root_chord":1.2,"ny":np.array([3,2,3][:nsec]),"nx":3}
    if root is not None: s["root_section"]=root
    try:
        m,secs=mg.generate_mesh(s)
        gaps=[abs(secs[i][:,-1]-secs[i+1][:,0]).max() for i in range(nsec-1)]
        u=unify_mesh([{"mesh":x} for x in secs], shift_uni_mesh=False)
        print(sym,nsec,root,'gaps',gaps,'unify err',abs(u-m).max(),'y monotone',bool((np.diff(m[0,:,1])>0).all()))
    except Exception as e: print(sym,nsec,root,'EXC',type(e).__name__,e)
