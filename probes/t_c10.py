import sys
sys.path.insert(0, '/repo')
import numpy as np, openmdao.api as om
from openaerostruct.structures.spatial_beam_setup import SpatialBeamSetup
from openaerostruct.structures.spatial_beam_states import SpatialBeamStates
def oas_beam(mesh, sym, A, Iy, Iz, J, loads, E=70e9, G=30e9, model='tube'):
    surf={"name":"w","symmetry":sym,"mesh":mesh,"fem_model_type":model,"E":E,"G":G,"yield":1e8,"mrho":3e3,"fem_origin":0.35,"wing_weight_ratio":1.,"struct_weight_relief":False,"distributed_fuel_weight":False,"exact_failure_constraint":False}
    p=om.Problem(reports=False)
    p.model.add_subsystem('bsetup', SpatialBeamSetup(surface=surf), promotes=['*'])
    p.model.add_subsystem('bstates', SpatialBeamStates(surface=surf), promotes=['*'])
    p.setup(); p.set_val('mesh',mesh); p.set_val('A',A); p.set_val('Iy',Iy); p.set_val('Iz',Iz); p.set_val('J',J); p.set_val('loads',loads)
    p.run_model(); return p
def ref_frame(nodes, A, Iy, Iz, J, loads, E, G, clamp):
    n=len(nodes); K=np.zeros((6*n,6*n))
    for e in range(n-1):
        P0,P1=nodes[e],nodes[e+1]; L=np.linalg.norm(P1-P0); x=(P1-P0)/L
        y=np.cross(x,[1.,0,0]); y/=np.linalg.norm(y); z=np.cross(x,y)
        R=np.array([x,y,z]); T=np.zeros((12,12))
        for k in range(4): T[3*k:3*k+3,3*k:3*k+3]=R
        k=np.zeros((12,12))
        EA=E*A[e]/L; GJ=G*J[e]/L
        # local dofs: u v w rx ry rz per node (textbook Przemieniecki)
        for (a,b,val) in [(0,0,EA),(0,6,-EA),(6,6,EA),(3,3,GJ),(3,9,-GJ),(9,9,GJ)]:
            k[a,b]=val; k[b,a]=val
        EIz=E*Iz[e]; EIy=E*Iy[e]
        # bending in x-y plane (v, rz) uses Iz
        kb = lambda EI: np.array([[12*EI/L**3, 6*EI/L**2, -12*EI/L**3, 6*EI/L**2],[6*EI/L**2,4*EI/L,-6*EI/L**2,2*EI/L],[-12*EI/L**3,-6*EI/L**2,12*EI/L**3,-6*EI/L**2],[6*EI/L**2,2*EI/L,-6*EI/L**2,4*EI/L]])
        idx=[1,5,7,11]; kk=kb(EIz)
        for a in range(4):
            for b in range(4): k[idx[a],idx[b]]+=kk[a,b]
        # bending in x-z plane (w, ry) uses Iy; sign of coupling flips
        idx=[2,4,8,10]; kk=kb(EIy); S=np.diag([1,-1,1,-1]); kk=S@kk@S
        for a in range(4):
            for b in range(4): k[idx[a],idx[b]]+=kk[a,b]
        kg=T.T@k@T
        d=np.r_[6*e:6*e+12]
        K[np.ix_(d,d)]+=kg
    free=[i for i in range(6*n) if i//6!=clamp]
    u=np.zeros(6*n); u[free]=np.linalg.solve(K[np.ix_(free,free)], loads.ravel()[free])
    return u.reshape(n,6), K
from openaerostruct.geometry.utils import generate_mesh
mesh = generate_mesh({"num_y":7,"num_x":2,"wing_type":"rect","symmetry":False,"span":10.,"root_chord":1.})
mesh[:,:,0]+=0.2*np.abs(mesh[:,:,1]); mesh[:,:,2]+=0.1*np.abs(mesh[:,:,1])+0.03*mesh[:,:,1]
rng=np.random.default_rng(0); ny=7
A=0.01+0.01*rng.random(ny-1); Iy=1e-4*(1+rng.random(ny-1)); Iz=2e-4*(1+rng.random(ny-1)); J=3e-4*(1+rng.random(ny-1))
loads=1e3*(rng.random((ny,6))-0.5)
p=oas_beam(mesh,False,A,Iy,Iz,J,loads)
u,K=ref_frame(p['nodes'],A,Iy,Iz,J,loads,70e9,30e9,clamp=3)
print('full-span disp err', abs(p['disp']-u).max()/abs(u).max())
half=mesh[:,:4].copy(); p=oas_beam(half,True,A[:3],Iy[:3],Iz[:3],J[:3],loads[:4])
u,K=ref_frame(p['nodes'],A[:3],Iy[:3],Iz[:3],J[:3],loads[:4],70e9,30e9,clamp=3)
print('half disp err', abs(p['disp']-u).max()/abs(u).max())
