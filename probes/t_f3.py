import sys, warnings, io, contextlib
sys.path.insert(0, '/repo'); sys.path.insert(0,'.')
warnings.simplefilter('ignore')
import numpy as np, openmdao.api as om
from t_aero import build
import t_as
def probe(p, label):
    p.run_model()
    p.model.run_linearize()
    def snap():
        out={}
        for s in p.model.system_iter(recurse=True):
            if isinstance(s, om.Group) or s._jacobian is None: continue
            for key,sj in s._jacobian._subjacs_info.items():
                val = sj.info['val'] if hasattr(sj,'info') else sj['val']
                import scipy.sparse as sp
                out[(s.pathname,)+tuple(key)]=np.array(val.todense() if sp.issparse(val) else val).copy()
        return out
    J0=snap()
    with contextlib.redirect_stdout(io.StringIO()): p.check_partials(compact_print=True,out_stream=None)
    p.model.run_linearize(); J1=snap()
    bad={}
    for k in J0:
        d=abs(J0[k]-J1[k]).max(); s=abs(J0[k]).max()
        if d>1e-12*max(s,1e-300) and d>0: bad.setdefault(k[0],[]).append((k[1].split('.')[-1],k[2].split('.')[-1],'%.1e'%(d/max(s,1e-300))))
    print(label); 
    for c,v in bad.items(): print('   ',c, v[:4])
p=build(2,5,True); p.setup(); probe(p,'AeroPoint')
p=t_as.build(2,5,True); p.setup(); p.set_solver_print(-1); probe(p,'AerostructPoint')
