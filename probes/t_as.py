import sys, time
sys.path.insert(0, '/repo')
import numpy as np
import openmdao.api as om
from openaerostruct.geometry.utils import generate_mesh
from openaerostruct.integration.aerostruct_groups import AerostructGeometry, AerostructPoint
from openaerostruct.utils.constants import grav_constant

def build(nx, ny, sym, mode="rev"):
    mesh = generate_mesh({"num_y": ny, "num_x": nx, "wing_type": "rect", "symmetry": sym, "span": 10., "root_chord": 1.})
    surf = {"name": "wing", "symmetry": sym, "S_ref_type": "wetted", "fem_model_type": "tube",
            "thickness_cp": np.array([0.01, 0.02]), "twist_cp": np.array([0.0, 1.0]), "mesh": mesh,
            "CL0": 0.0, "CD0": 0.015, "k_lam": 0.05, "t_over_c_cp": np.array([0.15]), "c_max_t": 0.303,
            "with_viscous": True, "with_wave": False, "E": 70.0e9, "G": 30.0e9, "yield": 500.0e6 / 2.5, "mrho": 3.0e3,
            "fem_origin": 0.35, "wing_weight_ratio": 2.0, "struct_weight_relief": False, "distributed_fuel_weight": False,
            "exact_failure_constraint": False}
    prob = om.Problem(reports=False)
    ivc = om.IndepVarComp()
    ivc.add_output("v", val=248.136, units="m/s"); ivc.add_output("alpha", val=5.0, units="deg")
    ivc.add_output("Mach_number", val=0.84); ivc.add_output("re", val=1.0e6, units="1/m")
    ivc.add_output("rho", val=0.38, units="kg/m**3"); ivc.add_output("CT", val=grav_constant * 17.0e-6, units="1/s")
    ivc.add_output("R", val=11.165e6, units="m"); ivc.add_output("W0", val=0.4 * 3e5, units="kg")
    ivc.add_output("speed_of_sound", val=295.4, units="m/s"); ivc.add_output("load_factor", val=1.0)
    ivc.add_output("empty_cg", val=np.zeros((3)), units="m")
    prob.model.add_subsystem("prob_vars", ivc, promotes=["*"])
    name="wing"
    prob.model.add_subsystem(name, AerostructGeometry(surface=surf))
    pn = "AS_point_0"
    prob.model.add_subsystem(pn, AerostructPoint(surfaces=[surf]), promotes_inputs=["v","alpha","Mach_number","re","rho","CT","R","W0","speed_of_sound","empty_cg","load_factor"])
    com = pn + ".wing_perf"
    c = prob.model.connect
    c(name + ".local_stiff_transformed", pn + ".coupled.wing.local_stiff_transformed")
    c(name + ".nodes", pn + ".coupled.wing.nodes"); c(name + ".mesh", pn + ".coupled.wing.mesh")
    c(name + ".radius", com + ".radius"); c(name + ".thickness", com + ".thickness"); c(name + ".nodes", com + ".nodes")
    c(name + ".cg_location", pn + ".total_perf.wing_cg_location"); c(name + ".structural_mass", pn + ".total_perf.wing_structural_mass")
    c(name + ".t_over_c", com + ".t_over_c")
    return prob
for nx, ny, sym in [(2,5,True),(2,5,False),(3,7,False)]:
    t=time.time(); p = build(nx,ny,sym); p.setup(mode='rev'); p.set_solver_print(-1); t1=time.time(); p.run_model(); t2=time.time()
    tot = p.compute_totals(of=["AS_point_0.fuelburn","AS_point_0.wing_perf.failure"], wrt=["alpha","wing.twist_cp","wing.thickness_cp"]); t3=time.time()
    p.run_model(); t4=time.time()
    print(nx,ny,sym,"setup %.3f run %.3f totals %.3f rerun %.3f"%(t1-t,t2-t1,t3-t2,t4-t3), p["AS_point_0.fuelburn"], p["AS_point_0.wing_perf.failure"], p.model.AS_point_0.coupled.nonlinear_solver._iter_count)
