import sys, time
sys.path.insert(0, '/repo'); sys.path.insert(0,'.')
import numpy as np, openmdao.api as om
import t_as
def go(mode, precon):
    p=t_as.build(2,5,True); p.setup(mode=mode); p.set_solver_print(-1)
    c=p.model.AS_point_0.coupled
    c.nonlinear_solver=om.NonlinearBlockGS(use_aitken=True, maxiter=200, atol=1e-12, rtol=1e-30, err_on_non_converge=True)
    c.linear_solver=om.ScipyKrylov(maxiter=100, atol=1e-12, rtol=1e-12, iprint=2, err_on_non_converge=False, restart=50)
    if precon=='direct': c.linear_solver.precon=om.DirectSolver(assemble_jac=True)
    elif precon=='lbgs': c.linear_solver.precon=om.LinearBlockGS(maxiter=2, iprint=-1)
    else: c.linear_solver.precon=om.LinearRunOnce(iprint=-1)
    p.run_model()
    T=p.compute_totals(of=["AS_point_0.CL"], wrt=["alpha"]); return T
for mode in ['fwd','rev']:
    for precon in ['direct','runonce','lbgs']:
        print('=====',mode,precon); print(go(mode,precon))
