import sys
sys.path.insert(0, '/repo'); sys.path.insert(0,'.')
import numpy as np
from openaerostruct.geometry.utils import generate_mesh
from t_c08 import oas
from ref_vlm_proto import solve
full = generate_mesh({"num_y":5,"num_x":3,"wing_type":"rect","symmetry":False,"span":8.,"root_chord":1.5})
m = full.copy(); m[:,:,0] += 0.3*np.abs(m[:,:,1])+0.05*m[:,:,1]; m[:,:,2] += 0.1*np.abs(m[:,:,1]) + 0.02*m[:,:,0]**2
for M, alpha, beta in [(0.0, 5., 0.), (0.0,5.,4.), (0.6, 5., 0.), (0.84, -3., 6.)]:
    pc = oas([m],[False], alpha, 50., 1.1, compressible=True, M=M, beta=beta)
    Fc = pc['ap.aero_states.s0_sec_forces']
    a=np.radians(alpha); b=np.radians(beta); ca,sa,cb,sb=np.cos(a),np.sin(a),np.cos(b),np.sin(b)
    Tw=np.array([[cb*ca,-sb,cb*sa],[sb*ca,cb,sb*sa],[-sa,0,ca]]); B=np.sqrt(1-M*M)
    mt = np.einsum('lk,ijk->ijl', Tw, m)*np.array([1,B,B])
    pi_ = oas([mt],[False], 0., 50., 1.1)
    Fi = pi_['ap.aero_states.s0_sec_forces']*np.array([1/B**4,1/B**3,1/B**3])
    Fi = np.einsum('lk,ijk->ijl', Tw.T, Fi)
    print(M,alpha,beta,'PG identity err', abs(Fc-Fi).max()/abs(Fc).max())
    if M==0:
        pin = oas([m],[False], alpha, 50., 1.1, beta=beta)
        print('   M0 vs incompressible', abs(Fc-pin['ap.aero_states.s0_sec_forces']).max()/abs(Fc).max(), pc['ap.CL'], pin['ap.CL'])
