import sys
sys.path.insert(0, '/repo'); sys.path.insert(0,'.')
import numpy as np, openmdao.api as om
from openaerostruct.geometry.utils import generate_mesh
from openaerostruct.aerodynamics.aero_groups import AeroPoint
from ref_vlm_proto import solve
def oas(meshes, syms, alpha, v, rho, ground=None, h=None, compressible=False, M=0.3, beta=0.):
    surfs=[]
    for k,(m,s) in enumerate(zip(meshes,syms)):
        surfs.append({"name":"s%d"%k,"symmetry":s,"S_ref_type":"wetted","mesh":m,"CL0":0.,"CD0":0.,"k_lam":0.05,"t_over_c_cp":np.array([0.12]),"c_max_t":0.3,"with_viscous":False,"with_wave":False, "groundplane": bool(ground)})
    p=om.Problem(reports=False)
    ivc=om.IndepVarComp(); ivc.add_output("v",val=v,units="m/s"); ivc.add_output("alpha",val=alpha,units="deg"); ivc.add_output("beta",val=beta,units="deg")
    ivc.add_output("Mach_number",val=M); ivc.add_output("re",val=1e6,units="1/m"); ivc.add_output("rho",val=rho,units="kg/m**3"); ivc.add_output("cg",val=np.zeros(3),units="m")
    prom=["v","alpha","beta","Mach_number","re","rho","cg"]
    if ground: ivc.add_output("height_agl", val=h, units="m"); prom.append("height_agl")
    p.model.add_subsystem("ivc",ivc,promotes=["*"])
    p.model.add_subsystem("ap",AeroPoint(surfaces=surfs, compressible=compressible),promotes_inputs=prom)
    p.setup()
    for k,s in enumerate(surfs):
        p.set_val("ap.s%d.def_mesh"%k, meshes[k]); p.set_val("ap.aero_states.s%d_def_mesh"%k, meshes[k])
        p.set_val("ap.s%d_perf.t_over_c"%k, 0.12)
    p.run_model(); return p
if __name__ == '__main__':
    full = generate_mesh({"num_y":7,"num_x":3,"wing_type":"rect","symmetry":False,"span":8.,"root_chord":1.5})
    m = full.copy(); m[:,:,0] += 0.3*np.abs(m[:,:,1]); m[:,:,2] += 0.1*np.abs(m[:,:,1]) + 0.02*m[:,:,0]**2
    half = m[:, :4].copy()
    alpha=6.; h=2.0
    pg = oas([half],[True], alpha, 50., 1.1, ground=True, h=h)
    a=np.radians(alpha); n=np.array([np.sin(a),0,-np.cos(a)]); pt = n*h
    def refl(X): return X - 2*np.einsum('...k,k->...', X-pt, n)[...,None]*n
    img_full = refl(m); img_half = refl(half)
    # native explicit image: 2 symmetric surfaces
    pi_ = oas([half, img_half],[True,True], alpha, 50., 1.1)
    print('native image: sec force err', abs(pg['ap.aero_states.s0_sec_forces']-pi_['ap.aero_states.s0_sec_forces']).max(), 'circ ratio', pi_['ap.circulations'][6:]/pi_['ap.circulations'][:6])
    A,rhs,G,F,panels = solve([m, img_full], alpha, 0., 50., 1.1)
    print('ref image: force err', abs(pg['ap.aero_states.s0_sec_forces'].reshape(-1,3) - F[:12].reshape(2,6,3)[:, :3].reshape(-1,3)).max(), abs(F).max())
    pfree = oas([half],[True], alpha, 50., 1.1)
    for hh in [1,2,5,10,100,1e3,1e4,1e6]:
        pp = oas([half],[True], alpha, 50., 1.1, ground=True, h=hh)
        print(hh, float(pp['ap.CL'][0]-pfree['ap.CL'][0]), float(pp['ap.CD'][0]-pfree['ap.CD'][0]))
