import sys, io, contextlib
sys.path.insert(0, '/repo'); sys.path.insert(0,'.')
import numpy as np, openmdao.api as om
from t_aero import build
def totals(p):
    return p.compute_totals(of=["aero_point_0.CL","aero_point_0.CD","aero_point_0.CM","aero_point_0.total_perf.moment.M"], wrt=["alpha","wing.twist_cp","v","cg"])
def fresh(alpha):
    p=build(2,5,True); p.setup(); p.set_val('alpha',alpha); p.run_model(); return p
p0=fresh(5.); T0=totals(p0)
# history: run at 3, totals, run at 5, check_partials, totals
p=build(2,5,True); p.setup(); p.set_val('alpha',3.); p.run_model(); totals(p); p.set_val('alpha',5.); p.run_model()
with contextlib.redirect_stdout(io.StringIO()):
    p.check_partials(compact_print=True, out_stream=None)
T1=totals(p)
for k in T0:
    d=abs(T0[k]-T1[k]).max(); s=abs(T0[k]).max()
    if d>1e-12*max(s,1): print(k,d,s)
print('outputs equal', abs(p['aero_point_0.CL']-p0['aero_point_0.CL']))
