import sys, time
sys.path.insert(0, '/repo')
import numpy as np
import openmdao.api as om
import openaerostruct
print(openaerostruct.__file__)
from openaerostruct.geometry.utils import generate_mesh
from openaerostruct.geometry.geometry_group import Geometry
from openaerostruct.aerodynamics.aero_groups import AeroPoint

def build(nx, ny, sym):
    mesh = generate_mesh({"num_y": ny, "num_x": nx, "wing_type": "rect", "symmetry": sym})
    surf = {"name": "wing", "symmetry": sym, "S_ref_type": "wetted", "twist_cp": np.array([0.0]), "mesh": mesh,
            "CL0": 0.0, "CD0": 0.015, "k_lam": 0.05, "t_over_c_cp": np.array([0.15]), "c_max_t": 0.303,
            "with_viscous": True, "with_wave": False}
    prob = om.Problem(reports=False)
    ivc = om.IndepVarComp()
    ivc.add_output("v", val=248.136, units="m/s"); ivc.add_output("alpha", val=5.0, units="deg")
    ivc.add_output("Mach_number", val=0.84); ivc.add_output("re", val=1.0e6, units="1/m")
    ivc.add_output("rho", val=0.38, units="kg/m**3"); ivc.add_output("cg", val=np.zeros((3)), units="m")
    prob.model.add_subsystem("prob_vars", ivc, promotes=["*"])
    prob.model.add_subsystem("wing", Geometry(surface=surf))
    prob.model.add_subsystem("aero_point_0", AeroPoint(surfaces=[surf]), promotes_inputs=["v","alpha","Mach_number","re","rho","cg"])
    prob.model.connect("wing.mesh", "aero_point_0.wing.def_mesh")
    prob.model.connect("wing.mesh", "aero_point_0.aero_states.wing_def_mesh")
    prob.model.connect("wing.t_over_c", "aero_point_0.wing_perf.t_over_c")
    return prob
for nx, ny, sym in [(2,3,True),(2,5,True),(3,7,False),(2,5,False)]:
    t=time.time(); p = build(nx,ny,sym); p.setup(); t1=time.time(); p.run_model(); t2=time.time()
    tot = p.compute_totals(of=["aero_point_0.CL","aero_point_0.CD"], wrt=["alpha","wing.twist_cp"]); t3=time.time()
    p.run_model(); t4=time.time()
    print(nx,ny,sym,"setup %.3f run %.3f totals %.3f rerun %.3f"%(t1-t,t2-t1,t3-t2,t4-t3), p["aero_point_0.CL"], p["aero_point_0.CD"])
import os; print(os.listdir('.'))
