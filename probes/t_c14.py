import sys, warnings, itertools
sys.path.insert(0, '/repo')
warnings.simplefilter('ignore')
import numpy as np
from openaerostruct.geometry.utils import generate_mesh, getFullMesh
bad={}; n=0
def flag(k,st): bad.setdefault(k,[]).append(st)
for nx,ny,span,chord,scs,ccs,wt,off in itertools.product([2,3,4,6],[3,5,7,11],[1.,10.,60.],[0.5,1.,5.],[0,0.3,1.],[0,0.5,1.],['rect','CRM','CRM:jig','CRM:alpha_2.75'],[np.zeros(3),np.array([3.,0,-1.])]):
    if wt!='rect' and (span!=10. or chord!=1.): continue
    d={"num_x":nx,"num_y":ny,"wing_type":wt,"span_cos_spacing":scs,"chord_cos_spacing":ccs,"offset":off}
    if wt=='rect': d.update(span=span,root_chord=chord)
    st=(nx,ny,span,chord,scs,ccs,wt,tuple(off)); n+=1
    rf=generate_mesh(dict(d,symmetry=False)); rh=generate_mesh(dict(d,symmetry=True))
    f=rf[0] if isinstance(rf,tuple) else rf; h=rh[0] if isinstance(rh,tuple) else rh
    f0=f-off; h0=h-off
    if f.shape!=(nx,ny,3) or h.shape!=(nx,(ny+1)//2,3): flag('shape',st)
    if not (np.diff(f0[:,:,0],axis=0)>0).all(): flag('x not increasing',st)
    if not (np.diff(f0[:,:,1],axis=1)>0).all(): flag('y not increasing',st)
    if abs(f0[:, ::-1]*np.array([1,-1,1])-f0).max()>1e-12*max(span,1): flag('not mirror symmetric',st)
    if abs(h-f[:, :(ny+1)//2]).max()>0: flag('half != full-left',st)
    if abs(getFullMesh(left_mesh=h0)-f0).max()>1e-12*max(span,1): flag('getFullMesh(left)',st)
    if abs(getFullMesh(right_mesh=f0[:, (ny-1)//2:])-f0).max()>1e-12*max(span,1): flag('getFullMesh(right)',st)
    if wt=='rect':
        if abs((f0[0,-1,1]-f0[0,0,1])-span)>1e-12*span: flag('span',st)
        if abs((f0[-1,ny//2,0]-f0[0,ny//2,0])-chord)>1e-12*chord: flag('chord',st)
print('states',n); 
for k,v in bad.items(): print(k,len(v),v[:3])
