import numpy as np, openmdao.api as om
from openmdao.test_suite.components.sellar import SellarDis1withDerivatives, SellarDis2withDerivatives
def go(mode, lin):
    p=om.Problem(reports=False); m=p.model
    m.add_subsystem('ivc', om.IndepVarComp('x',1.0), promotes=['*']); m.add_subsystem('ivc2', om.IndepVarComp('z',np.array([5.,2.])), promotes=['*'])
    cyc=m.add_subsystem('cycle', om.Group(), promotes=['*'])
    cyc.add_subsystem('d1', SellarDis1withDerivatives(), promotes=['*']); cyc.add_subsystem('d2', SellarDis2withDerivatives(), promotes=['*'])
    cyc.nonlinear_solver=om.NonlinearBlockGS(atol=1e-14, rtol=1e-14)
    if lin=='direct': cyc.linear_solver=om.DirectSolver()
    else:
        cyc.linear_solver=om.ScipyKrylov(atol=1e-14, rtol=1e-14, err_on_non_converge=True); cyc.linear_solver.precon=om.LinearRunOnce()
    p.setup(mode=mode); p.set_solver_print(-1); p.run_model()
    return p.compute_totals(of=['y1','y2'], wrt=['x','z'])
for mode in ['fwd','rev']:
    a=go(mode,'direct'); 
    try:
        b=go(mode,'krylov'); print(mode, max(abs(a[k]-b[k]).max() for k in a))
    except Exception as e: print(mode,'EXC',str(e)[:100])
