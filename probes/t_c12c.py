import sys, time
sys.path.insert(0, '/repo'); sys.path.insert(0,'.')
import numpy as np, openmdao.api as om
import t_as
p=t_as.build(2,5,True); p.setup(mode='fwd'); p.set_solver_print(-1)
c=p.model.AS_point_0.coupled
c.nonlinear_solver=om.NonlinearBlockGS(use_aitken=True, maxiter=200, atol=1e-12, rtol=1e-30, err_on_non_converge=True)
c.linear_solver=om.ScipyKrylov(maxiter=1000, atol=1e-14, rtol=1e-14, iprint=2, err_on_non_converge=True, restart=200); c.linear_solver.precon=om.LinearRunOnce(iprint=-1)
p.run_model()
try:
    T=p.compute_totals(of=["AS_point_0.CL"], wrt=["alpha"]); print(T)
except Exception as e: print('EXC', e)
