"""Independent Biot-Savart VLM (prototype) -- Katz & Plotkin style, loops, no code shared with OAS."""
import numpy as np

def seg(P, A, B):
    """velocity at P induced by unit-strength straight vortex from A to B (K&P eq 10.115)"""
    r1 = P - A; r2 = P - B; r0 = B - A
    c = np.cross(r1, r2); c2 = c.dot(c)
    n1 = np.linalg.norm(r1); n2 = np.linalg.norm(r2)
    if c2 < 1e-24 * (n1*n2)**2 or n1 == 0 or n2 == 0:
        return np.zeros(3)
    return c / c2 * r0.dot(r1/n1 - r2/n2) / (4*np.pi)

def semi(P, A, u):
    """unit vortex starting at A going to infinity along unit vector u"""
    r = P - A; c = np.cross(u, r); c2 = c.dot(c); n = np.linalg.norm(r)
    if c2 < 1e-24 * n*n: return np.zeros(3)
    return c / c2 * (1 + u.dot(r)/n) / (4*np.pi)

def rings(mesh):
    nx, ny, _ = mesh.shape
    vm = np.empty_like(mesh); vm[:-1] = 0.75*mesh[:-1] + 0.25*mesh[1:]; vm[-1] = mesh[-1]
    return vm

def ring_vel(P, vm, i, j, u, last):
    # corners: A=(i,j+1) B=(i,j) C=(i+1,j) D=(i+1,j+1); circulation A->B->C->D->A
    A = vm[i, j+1]; B = vm[i, j]; C = vm[i+1, j]; D = vm[i+1, j+1]
    v = seg(P, A, B) + seg(P, B, C) + seg(P, C, D) + seg(P, D, A)
    if last:
        # wake: the shed ring extends to infinity: C->inf along u, inf->D, D->C closes => equivalently add D->C, C->inf, inf->D
        v = v + seg(P, D, C) + semi(P, C, u) - semi(P, D, u)
    return v

def solve(meshes, alpha, beta, v, rho, sym=None, omega=None, cg=None):
    """meshes: list of full (nx,ny,3) arrays. returns per-surface circulations and panel forces"""
    a = np.radians(alpha); b = np.radians(beta)
    u = np.array([np.cos(a), 0, np.sin(a)])
    vinf = v*np.array([np.cos(a)*np.cos(b), -np.sin(b), np.sin(a)*np.cos(b)])
    panels = []
    for s, m in enumerate(meshes):
        nx, ny, _ = m.shape; vm = rings(m)
        for i in range(nx-1):
            for j in range(ny-1):
                cp = 0.5*(0.25*m[i, j] + 0.75*m[i+1, j]) + 0.5*(0.25*m[i, j+1] + 0.75*m[i+1, j+1])
                fp = 0.5*(0.75*m[i, j] + 0.25*m[i+1, j]) + 0.5*(0.75*m[i, j+1] + 0.25*m[i+1, j+1])
                bv = (0.75*m[i, j] + 0.25*m[i+1, j]) - (0.75*m[i, j+1] + 0.25*m[i+1, j+1])
                n = np.cross(m[i, j+1] - m[i+1, j], m[i, j] - m[i+1, j+1]); n /= np.linalg.norm(n)
                panels.append(dict(s=s, i=i, j=j, cp=cp, fp=fp, bv=bv, n=n, vm=vm, last=(i == nx-2)))
    N = len(panels)
    A = np.zeros((N, N)); rhs = np.zeros(N); onset = np.zeros((N, 3))
    for p, P in enumerate(panels):
        vo = vinf.copy()
        if omega is not None: vo = vo + np.cross(omega, P['cp'] - cg)
        onset[p] = vo; rhs[p] = -vo.dot(P['n'])
        for q, Q in enumerate(panels):
            A[p, q] = ring_vel(P['cp'], Q['vm'], Q['i'], Q['j'], u, Q['last']).dot(P['n'])
    G = np.linalg.solve(A, rhs)
    F = np.zeros((N, 3))
    for p, P in enumerate(panels):
        vloc = onset[p].copy()
        for q, Q in enumerate(panels):
            vloc += G[q]*ring_vel(P['fp'], Q['vm'], Q['i'], Q['j'], u, Q['last'])
        # horseshoe strength = ring - upstream ring
        gh = G[p]
        if P['i'] > 0:
            up = [k for k, Q in enumerate(panels) if Q['s'] == P['s'] and Q['i'] == P['i']-1 and Q['j'] == P['j']][0]
            gh = G[p] - G[up]
        F[p] = rho*gh*np.cross(vloc, P['bv'])
    return A, rhs, G, F, panels
