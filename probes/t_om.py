import numpy as np, openmdao.api as om, io, contextlib, warnings
warnings.simplefilter('ignore')
class C(om.ExplicitComponent):
    def setup(self):
        self.add_input('x', val=np.array([1.3,2.7])); self.add_output('y', val=np.zeros(2))
        self.declare_partials('y','x', rows=[0,1], cols=[0,1], val=-1.0)
    def compute(self, i, o): o['y'] = -i['x']
p=om.Problem(reports=False); p.model.add_subsystem('c',C(),promotes=['*']); p.setup(); p.run_model()
a=p.compute_totals(of=['y'],wrt=['x'])['y','x'].copy()
with contextlib.redirect_stdout(io.StringIO()): p.check_partials(out_stream=None)
b=p.compute_totals(of=['y'],wrt=['x'])['y','x'].copy()
print(a, b, a-b)
