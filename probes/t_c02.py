import sys, time
sys.path.insert(0, '/repo'); sys.path.insert(0,'.')
import numpy as np, openmdao.api as om
import t_as
p=t_as.build(2,5,True); p.setup(mode='rev'); p.set_solver_print(-1)
c=p.model.AS_point_0.coupled
c.nonlinear_solver=om.NonlinearBlockGS(use_aitken=True, maxiter=200, atol=1e-30, rtol=1e-14, err_on_non_converge=False)
ofs=["AS_point_0.fuelburn","AS_point_0.wing_perf.failure","AS_point_0.CL","AS_point_0.CD","AS_point_0.CM","AS_point_0.L_equals_W","wing.structural_mass"]
wrts=["alpha","wing.twist_cp","wing.thickness_cp","v","Mach_number","rho","re","W0","load_factor"]
p.run_model(); t=time.time(); T=p.compute_totals(of=ofs, wrt=wrts); print('totals',time.time()-t)
def f():
    p.run_model(); return np.concatenate([np.atleast_1d(p[o]).ravel() for o in ofs])
t=time.time(); worst=0
for w in wrts:
    x0=p.get_val(w).copy()
    for i in range(x0.size):
        def d(h):
            x=x0.copy(); x.flat[i]=x0.flat[i]+h; p.set_val(w,x); a=f(); x.flat[i]=x0.flat[i]-h; p.set_val(w,x); b=f(); return (a-b)/(2*h)
        h=1e-3*max(abs(x0.flat[i]),1e-2 if 'thick' in w else 1.0)
        d1=d(h); d2=d(h/2); d4=d(h/4)
        r1=(4*d2-d1)/3; r2=(4*d4-d2)/3; R=(16*r2-r1)/15; est=abs(R-r2)
        p.set_val(w,x0)
        an=np.concatenate([T[o,w][:,i].ravel() for o in ofs])
        err=abs(an-R); scale=abs(R)+1e-12
        j=np.argmax(err/(scale+abs(R).max()*1e-9)); 
        print('%-18s[%d] max relerr %.2e (est %.1e) at out %d val %.4e'%(w,i,(err/(scale)).max() if (scale>1e-10).all() else (err/(scale+1e-8)).max(), (est/(scale)).max(), j, R[j]))
print('fd time',time.time()-t)
