import sys, warnings
sys.path.insert(0, '/repo'); sys.path.insert(0,'.')
warnings.simplefilter('ignore')
import numpy as np, openmdao.api as om
from t_c01 import mesh_for
from t_c05 import oas
from mphys.core import MPhysVariables as V
from openaerostruct.mphys.aero_solver_group import AeroSolverGroup
from openaerostruct.mphys.aero_funcs_group import AeroFuncsGroup
from openaerostruct.mphys.demux_surface_mesh import DemuxSurfaceMesh
from openaerostruct.mphys.mux_surface_forces import MuxSurfaceForces
m0=mesh_for(3,5,False,fam=2); m1=mesh_for(2,3,False,fam=1)*0.5+np.array([5.,0.3,0.6]); m2=mesh_for(2,3,False,fam=0)*0.4+np.array([-3.,-0.2,-0.5])
meshes=[m0,m1,m2]; keep=[m.copy() for m in meshes]
p=oas(meshes,[False]*3,5.,3.,50.,1.1)
import itertools
for perm in itertools.permutations(range(3)):
    q=oas([meshes[i] for i in perm],[False]*3,5.,3.,50.,1.1)
    err=max(abs(q['ap.aero_states.s%d_sec_forces'%k]-p['ap.aero_states.s%d_sec_forces'%i]).max() for k,i in enumerate(perm))
    print(perm,'force err %.1e'%err,'CL %.1e CD %.1e'%(abs(q['ap.CL']-p['ap.CL'])[0],abs(q['ap.CD']-p['ap.CD'])[0]), 'M err %.1e'%abs(q['ap.total_perf.moment.M']-p['ap.total_perf.moment.M']).max())
print('meshes untouched', all((a==b).all() for a,b in zip(meshes,keep)))
# split full-span surface at column 2
qs=oas([m0[:, :3].copy(), m0[:, 2:].copy()],[False,False],5.,3.,50.,1.1)
pf=oas([m0],[False],5.,3.,50.,1.1)
F=np.concatenate([qs['ap.aero_states.s0_sec_forces'],qs['ap.aero_states.s1_sec_forces']],axis=1)
print('split force err', abs(F-pf['ap.aero_states.s0_sec_forces']).max(), 'CL', qs['ap.CL'],pf['ap.CL'])
# mphys wrapper
surfs=[{"name":"s%d"%k,"symmetry":False,"S_ref_type":"wetted","mesh":m,"CL0":0.,"CD0":0.,"k_lam":0.05,"t_over_c_cp":np.array([0.12]),"c_max_t":0.3,"with_viscous":False,"with_wave":False} for k,m in enumerate(meshes)]
pr=om.Problem(reports=False)
pr.model.add_subsystem('demux',DemuxSurfaceMesh(surfaces=surfs),promotes=['*'])
pr.model.add_subsystem('solver',AeroSolverGroup(surfaces=surfs,compressible=False),promotes=['*'])
pr.model.add_subsystem('mux',MuxSurfaceForces(surfaces=surfs),promotes=['*'])
pr.model.set_input_defaults(V.Aerodynamics.FlowConditions.ANGLE_OF_ATTACK,val=0.,units='deg'); pr.model.set_input_defaults(V.Aerodynamics.FlowConditions.YAW_ANGLE,val=0.,units='deg'); pr.setup()
x=np.concatenate([m.ravel() for m in meshes]); pr.set_val(V.Aerodynamics.Surface.COORDINATES,x)
pr.set_val(V.Aerodynamics.FlowConditions.ANGLE_OF_ATTACK,5.,units='deg'); pr.set_val(V.Aerodynamics.FlowConditions.YAW_ANGLE,3.,units='deg'); pr.set_val('v',50.); pr.set_val('rho',1.1)
pr.run_model()
print('mphys force err', max(abs(pr['s%d_sec_forces'%k]-p['ap.aero_states.s%d_sec_forces'%k]).max() for k in range(3)))
