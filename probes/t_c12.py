import sys, time
sys.path.insert(0, '/repo'); sys.path.insert(0,'.')
import numpy as np, openmdao.api as om
import t_as
def run(nl, lin, mode='rev'):
    p=t_as.build(2,5,True); p.setup(mode=mode); p.set_solver_print(-1)
    c=p.model.AS_point_0.coupled
    if nl=='bgs': c.nonlinear_solver=om.NonlinearBlockGS(use_aitken=False, maxiter=200, atol=1e-12, rtol=1e-30, err_on_non_converge=True)
    elif nl=='aitken': c.nonlinear_solver=om.NonlinearBlockGS(use_aitken=True, maxiter=200, atol=1e-12, rtol=1e-30, err_on_non_converge=True)
    elif nl=='newton': c.nonlinear_solver=om.NewtonSolver(solve_subsystems=True, maxiter=50, atol=1e-12, rtol=1e-30, err_on_non_converge=True)
    if lin=='direct': c.linear_solver=om.DirectSolver(assemble_jac=True)
    elif lin=='lbgs': c.linear_solver=om.LinearBlockGS(maxiter=500, atol=1e-14, rtol=1e-14)
    elif lin=='krylov': c.linear_solver=om.ScipyKrylov(maxiter=500, atol=1e-14, rtol=1e-14); c.linear_solver.precon=om.LinearRunOnce()
    p.set_solver_print(-1)
    t=time.time(); p.run_model()
    T=p.compute_totals(of=["AS_point_0.fuelburn","AS_point_0.wing_perf.failure","AS_point_0.CL"], wrt=["alpha","wing.twist_cp","wing.thickness_cp"])
    return p, T, time.time()-t
ref=None
for nl in ['aitken','bgs','newton']:
    for lin in ['direct','lbgs','krylov']:
        for mode in ['fwd','rev']:
            try:
                p,T,dt=run(nl,lin,mode)
                v=np.concatenate([p['AS_point_0.fuelburn'],p['AS_point_0.wing_perf.failure'],p['AS_point_0.coupled.wing.disp'].ravel()])
                tv=np.concatenate([T[k].ravel() for k in sorted(T)])
                if ref is None: ref=(v,tv)
                print(nl,lin,mode,'%.2fs'%dt,'out rel %.2e'%(abs(v-ref[0]).max()/abs(ref[0]).max()),'tot rel %.2e'%(abs(tv-ref[1])/(abs(ref[1])+1e-30*0+abs(ref[1]).max()*1e-12)).max(), p.model.AS_point_0.coupled.nonlinear_solver._iter_count)
            except Exception as e: print(nl,lin,mode,'EXC',type(e).__name__,str(e)[:100])
