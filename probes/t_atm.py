import sys, warnings
sys.path.insert(0, '/repo')
import numpy as np
from openaerostruct.common.atmos_comp import USatm1976Data as D
# table units: alt ft, T degR, P psi, rho slug/ft3, a ft/s, visc lbf s/ft2
R=1716.49 # ft lbf/(slug R)
e=D.P*144/(D.rho*R*D.T)-1
i=np.argsort(-abs(e))[:8]; print('table ideal gas worst', [(D.alt[k], round(e[k],5)) for k in i])
e2=D.a/np.sqrt(1.4*R*D.T)-1; i=np.argsort(-abs(e2))[:5]; print('sound worst',[(D.alt[k], round(e2[k],6)) for k in i])
print(np.diff(D.alt)[:5], np.diff(D.alt)[-5:])
print('P monotone', (np.diff(D.P)<0).all(), 'rho monotone', (np.diff(D.rho)<0).all())
k=np.where(abs(e)>1e-3)[0]; print(len(k), D.alt[k][:20])
