import sys, warnings
sys.path.insert(0, '/repo'); sys.path.insert(0,'.')
warnings.simplefilter('ignore')
import numpy as np
from t_c01 import mesh_for
from t_c05 import oas
Mv=np.array([1,-1,1.]); Ma=np.array([-1,1,-1.])
def mir(m): return m[:, ::-1]*Mv
m0=mesh_for(3,5,False,fam=2); m1=mesh_for(2,3,False,fam=1)*0.5+np.array([5.,0.7,0.6])
om_=np.array([0.1,-0.2,0.3]); cg=np.array([0.5,0.4,-0.2])
p=oas([m0,m1],[False,False],6.,4.,50.,1.1,omega=om_,cg=cg)
q=oas([mir(m0),mir(m1)],[False,False],6.,-4.,50.,1.1,omega=om_*Ma,cg=cg*Mv)
for k in range(2):
    print('surf',k,'force mirror err', abs(q['ap.aero_states.s%d_sec_forces'%k]-p['ap.aero_states.s%d_sec_forces'%k][:, ::-1]*Mv).max())
print('CL',p['ap.CL'],q['ap.CL'],'CD',p['ap.CD'],q['ap.CD'],'CM',p['ap.CM'],q['ap.CM'])
