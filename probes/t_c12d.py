import sys, time
sys.path.insert(0, '/repo'); sys.path.insert(0,'.')
import numpy as np, openmdao.api as om
import t_as
def go(mode, atol, rtol, restart=20, maxiter=1000, precon='runonce'):
    p=t_as.build(2,5,True); p.setup(mode=mode); p.set_solver_print(-1)
    c=p.model.AS_point_0.coupled
    c.nonlinear_solver=om.NonlinearBlockGS(use_aitken=True, maxiter=200, atol=1e-12, rtol=1e-30, err_on_non_converge=True)
    if precon=='direct':
        c.linear_solver=om.DirectSolver(assemble_jac=True)
    else:
        c.linear_solver=om.ScipyKrylov(maxiter=maxiter, atol=atol, rtol=rtol, iprint=-1, err_on_non_converge=True, restart=restart); c.linear_solver.precon=om.LinearRunOnce(iprint=-1)
    p.run_model()
    try:
        T=p.compute_totals(of=["AS_point_0.CL","AS_point_0.fuelburn"], wrt=["alpha","wing.thickness_cp"]); return np.concatenate([T[k].ravel() for k in sorted(T)])
    except Exception as e: return 'EXC '+str(e)[:90]
ref=go('fwd',0,0,precon='direct'); print(ref)
for mode in ['fwd','rev']:
    for atol,rtol in [(1e-14,1e-14),(1e-10,1e-10),(1e-30,1e-10),(1e-6,1e-30)]:
        for restart in [20,100]:
            r=go(mode,atol,rtol,restart)
            print(mode,atol,rtol,restart, r if isinstance(r,str) else abs(r-ref).max()/abs(ref).max())
