import sys, warnings, time
sys.path.insert(0, '/repo'); sys.path.insert(0,'.')
warnings.simplefilter('ignore')
import numpy as np, openmdao.api as om
from t_c01 import check, gen, mesh_for
from openaerostruct.aerodynamics.vortex_mesh import VortexMesh
from openaerostruct.aerodynamics.eval_mtx import EvalVelMtx
from openaerostruct.aerodynamics.get_vectors import GetVectors
from openaerostruct.aerodynamics.collocation_points import CollocationPoints
from openaerostruct.aerodynamics.mtx_rhs import VLMMtxRHSComp
from openaerostruct.aerodynamics.solve_matrix import SolveMatrix
from openaerostruct.aerodynamics.eval_velocities import EvalVelocities
from openaerostruct.aerodynamics.panel_forces import PanelForces
from openaerostruct.aerodynamics.mesh_point_forces import MeshPointForces
from openaerostruct.aerodynamics.rotational_velocity import RotationalVelocity
from openaerostruct.aerodynamics.convert_velocity import ConvertVelocity
from openaerostruct.aerodynamics.lift_coeff_2D import LiftCoeff2D
from openaerostruct.aerodynamics.coeffs import Coeffs
from openaerostruct.aerodynamics.viscous_drag import ViscousDrag
from openaerostruct.aerodynamics.wave_drag import WaveDrag
from openaerostruct.aerodynamics.pg_scale import ScaleToPrandtlGlauert, ScaleFromPrandtlGlauert
from openaerostruct.aerodynamics.pg_wind_rotation import RotateToWindFrame, RotateFromWindFrame
from openaerostruct.aerodynamics.horseshoe_circulations import HorseshoeCirculations
t0=time.time()
def surf(name,m,sym,ground=False,**kw):
    s={"name":name,"symmetry":sym,"mesh":m,"S_ref_type":"wetted","groundplane":ground,"with_viscous":True,"with_wave":True,"k_lam":0.05,"c_max_t":0.303}; s.update(kw); return s
for side in ['left','right']:
  for ground in [False,True]:
    for nx in [2,3]:
        m=mesh_for(nx,3,True,side,fam=2); m2=mesh_for(2,4,True,side,fam=1)+np.array([4.,0,0.5])
        S=[surf('a',m,True,ground), surf('b',m2,True,ground)]
        tag='%s g%d nx%d'%(side,ground,nx)
        ins={'a_def_mesh':m,'b_def_mesh':m2,'height_agl':5.,'alpha':0.07}
        check(VortexMesh(surfaces=S),ins,'VortexMesh 2surf '+tag)
        npts=(nx-1)*2+1*3
        # vectors input: build physically meaningful vectors via GetVectors chain: use random offsets instead
        def vecs(n,shape,k): return gen(shape,k,-2,2)+ (np.arange(np.prod(shape)).reshape(shape)%7)*0.3
        check(EvalVelMtx(surfaces=S,eval_name='coll_pts',num_eval_points=npts),{'*':lambda n,sh,k: (np.array([3.]) if n=='alpha' else vecs(n,sh,k))},'EvalVelMtx 2surf '+tag, skip_wrt=())
        check(GetVectors(surfaces=S,eval_name='coll_pts',num_eval_points=npts),None,'GetVectors 2surf '+tag)
for nx in [2,3]:
    m=mesh_for(nx,5,False,fam=2); m2=mesh_for(2,3,False,fam=1)+np.array([4.,0,0.5]); S=[surf('a',m,False),surf('b',m2,False)]; npts=(nx-1)*4+2
    tag='full nx%d'%nx
    check(VortexMesh(surfaces=S),{'a_def_mesh':m,'b_def_mesh':m2},'VortexMesh 2surf '+tag)
    check(EvalVelMtx(surfaces=S,eval_name='force_pts',num_eval_points=npts),{'*':lambda n,sh,k: (np.array([3.]) if n=='alpha' else gen(sh,k,-2,2)+(np.arange(np.prod(sh)).reshape(sh)%7)*0.3)},'EvalVelMtx 2surf '+tag)
    check(CollocationPoints(surfaces=S),{'a_def_mesh':m,'b_def_mesh':m2},'CollocationPoints '+tag)
    check(VLMMtxRHSComp(surfaces=S),None,'VLMMtxRHSComp '+tag)
    check(SolveMatrix(surfaces=S),{'mtx':np.eye(npts)*3+gen((npts,npts),1,-0.3,0.3)},'SolveMatrix '+tag)
    check(SolveMatrix(surfaces=S),{'mtx':np.eye(npts)*3+gen((npts,npts),1,-0.3,0.3)},'SolveMatrix rev '+tag, mode='rev')
    check(EvalVelocities(surfaces=S,eval_name='force_pts',num_eval_points=npts),None,'EvalVelocities '+tag)
    check(PanelForces(surfaces=S),None,'PanelForces '+tag)
    check(MeshPointForces(surfaces=S),None,'MeshPointForces '+tag)
    check(HorseshoeCirculations(surfaces=S),None,'HorseshoeCirc '+tag)
    check(RotationalVelocity(surfaces=S),None,'RotationalVelocity '+tag)
    check(ConvertVelocity(surfaces=S,rotational=True),{'alpha':4.,'beta':-3.,'v':50.},'ConvertVelocity '+tag)
    check(LiftCoeff2D(surface=S[0]),{'alpha':4.},'LiftCoeff2D '+tag)
    check(ScaleToPrandtlGlauert(surfaces=S,rotational=True),{'Mach_number':0.6},'ScaleToPG '+tag)
    check(ScaleFromPrandtlGlauert(surfaces=S),{'Mach_number':0.6},'ScaleFromPG '+tag)
    check(RotateToWindFrame(surfaces=S,rotational=True),{'alpha':0.07,'beta':0.05},'RotateToWind '+tag)
    check(RotateFromWindFrame(surfaces=S),{'alpha':0.07,'beta':0.05},'RotateFromWind '+tag)
    for kl in [0.0,0.05,1.0]:
        check(ViscousDrag(surface=surf('a',m,False,k_lam=kl)),{'re':2e6,'Mach_number':0.5,'t_over_c':gen((4,),2,0.08,0.16),'lengths_spanwise':gen((4,),3,1.5,2.),'widths':gen((4,),4,1.,1.4)},'ViscousDrag klam%.2f '%kl+tag)
    for M in [0.6,0.9]:
        check(WaveDrag(surface=surf('a',m,True)),{'Mach_number':M,'CL':0.5,'t_over_c':gen((4,),2,0.08,0.16),'lengths_spanwise':gen((4,),3,1.5,2.),'widths':gen((4,),4,1.,1.4)},'WaveDrag M%.1f '%M+tag)
check(Coeffs(),None,'Coeffs')
print('time',time.time()-t0)
