import sys
sys.path.insert(0, '/repo'); sys.path.insert(0,'.')
import numpy as np, openmdao.api as om
from openaerostruct.geometry.utils import generate_mesh
from openaerostruct.aerodynamics.aero_groups import AeroPoint
from ref_vlm_proto import solve
def oas(meshes, syms, alpha, beta, v, rho, omega=None, cg=None):
    surfs=[]
    for k,(m,s) in enumerate(zip(meshes,syms)):
        surfs.append({"name":"s%d"%k,"symmetry":s,"S_ref_type":"wetted","mesh":m,"CL0":0.,"CD0":0.,"k_lam":0.05,"t_over_c_cp":np.array([0.12]),"c_max_t":0.3,"with_viscous":False,"with_wave":False})
    p=om.Problem(reports=False)
    ivc=om.IndepVarComp(); ivc.add_output("v",val=v,units="m/s"); ivc.add_output("alpha",val=alpha,units="deg"); ivc.add_output("beta",val=beta,units="deg")
    ivc.add_output("Mach_number",val=0.3); ivc.add_output("re",val=1e6,units="1/m"); ivc.add_output("rho",val=rho,units="kg/m**3"); ivc.add_output("cg",val=np.zeros(3) if cg is None else cg,units="m")
    if omega is not None: ivc.add_output("omega", val=omega, units="rad/s")
    p.model.add_subsystem("ivc",ivc,promotes=["*"])
    prom=["v","alpha","beta","Mach_number","re","rho","cg"]+(["omega"] if omega is not None else [])
    p.model.add_subsystem("ap",AeroPoint(surfaces=surfs, rotational=omega is not None),promotes_inputs=prom)
    p.setup()
    for k,s in enumerate(surfs):
        p.set_val("ap.s%d.def_mesh"%k, meshes[k]); p.set_val("ap.aero_states.s%d_def_mesh"%k, meshes[k])
        p.set_val("ap.s%d_perf.t_over_c"%k, 0.12)
    p.run_model(); return p
full = generate_mesh({"num_y":5,"num_x":3,"wing_type":"rect","symmetry":False,"span":8.,"root_chord":1.5})
# make asymmetric, swept, twisted-ish
m = full.copy(); m[:,:,0] += 0.3*np.abs(m[:,:,1]) + 0.05*m[:,:,1]; m[:,:,2] += 0.1*np.abs(m[:,:,1]) + 0.02*m[:,:,0]**2; 
tail = generate_mesh({"num_y":3,"num_x":2,"wing_type":"rect","symmetry":False,"span":3.,"root_chord":0.8, "offset":np.array([5.,0.3,0.7])})
om_ = np.array([0.1,-0.2,0.3]); cg=np.array([0.5,0.1,-0.2])
p = oas([m,tail],[False,False], 6., 4., 50., 1.1, omega=om_, cg=cg)
A,rhs,G,F,panels = solve([m,tail], 6., 4., 50., 1.1, omega=om_, cg=cg)
print('mtx err', abs(p['ap.aero_states.mtx']-A).max()/abs(A).max(), 'rhs', abs(p['ap.aero_states.rhs']-rhs).max())
print('circ err', abs(p['ap.circulations']-G).max()/abs(G).max())
Fo = np.concatenate([p['ap.aero_states.s0_sec_forces'].reshape(-1,3), p['ap.aero_states.s1_sec_forces'].reshape(-1,3)])
print('force err', abs(Fo-F).max()/abs(F).max())
