"""RNG-free generators of 'generic' values and meshes (DESIGN.md 3.3).

All values come from fixed formulas.  `fam` (0,1,2) selects one of three pre-vetted families of
irrational offsets; it is derived from VERIF_SEED % 3.
"""
import numpy as np

_PHI = [0.6180339887498949, 0.7548776662466927, 0.5698402909980532]
_OFF = [0.137, 0.271, 0.419]


def gen(shape, k, lo=0.5, hi=1.5, fam=0):
    """deterministic quasi-random array in [lo, hi]: no two entries equal, no special values"""
    n = int(np.prod(shape)) if shape else 1
    x = (np.arange(1, n + 1) * _PHI[fam % 3] * (k + 1) + _OFF[fam % 3] * (k + 1)) % 1.0
    x = 0.02 + 0.96 * x
    return (lo + (hi - lo) * x).reshape(shape)


_C = {  # family-dependent planform coefficients
    "sweep": [0.30, 0.27, 0.34],
    "taper": [0.04, 0.05, 0.035],
    "dihed": [0.10, 0.12, 0.085],
    "twist0": [1.0, 1.3, 0.8],
    "twist1": [0.5, 0.4, 0.6],
    "camber": [0.06, 0.05, 0.07],
    "asx": [0.05, 0.06, 0.045],
    "asz": [0.03, 0.025, 0.035],
}


def rect_full(nx, ny, span=8.0, chord=1.5, cos_y=0.0):
    """plain rectangular full-span mesh, x chordwise (LE->TE), y spanwise (-b/2 -> b/2)"""
    m = np.zeros((nx, ny, 3))
    yl = np.linspace(-1, 1, ny)
    if cos_y:
        yc = -np.cos(np.linspace(0, np.pi, ny))
        yl = (1 - cos_y) * yl + cos_y * yc
    m[:, :, 1] = 0.5 * span * yl[None, :]
    m[:, :, 0] = chord * np.linspace(0, 1, nx)[:, None]
    return m


def pretwist(m, t0, t1):
    """rotate each chordwise section about its quarter-chord point by t0 + t1*|y| degrees (nose up)"""
    m = m.copy()
    y = np.abs(m[:, :, 1])
    th = np.radians(t0 + t1 * y)
    qc = 0.75 * m[0] + 0.25 * m[-1]
    dx = m[:, :, 0] - qc[:, 0]
    dz = m[:, :, 2] - qc[:, 2]
    m[:, :, 0] = qc[:, 0] + np.cos(th) * dx + np.sin(th) * dz
    m[:, :, 2] = qc[:, 2] - np.sin(th) * dx + np.cos(th) * dz
    return m


PLANFORMS = ["rect", "swept", "twdi", "camber", "crm"]


def full_symmetric(pf, nx, ny, fam=0, span=8.0, chord=1.5):
    """mirror-symmetric full-span mesh of planform family pf with ny (odd) spanwise nodes"""
    assert ny % 2 == 1
    if pf == "crm":
        from openaerostruct.geometry.utils import generate_mesh

        m, _ = generate_mesh({"num_y": ny, "num_x": nx, "wing_type": "CRM", "symmetry": False, "num_twist_cp": 3})
        m = np.array(m, dtype=float)
        # exact mirror symmetry (the generator is symmetric to round-off only)
        h = (ny + 1) // 2
        m[:, h - 1 :, :] = m[:, : h][:, ::-1, :] * np.array([1, -1, 1])
        m[:, h - 1, 1] = 0.0
        return m
    m = rect_full(nx, ny, span, chord)
    c = {k: v[fam % 3] for k, v in _C.items()}
    ay = np.abs(m[:, :, 1])
    if pf in ("swept", "twdi", "camber"):
        le = c["sweep"] * ay[0]
        ch = chord * (1 - c["taper"] * ay[0])
        m[:, :, 0] = le[None, :] + np.linspace(0, 1, nx)[:, None] * ch[None, :]
    if pf in ("twdi", "camber"):
        m[:, :, 2] += c["dihed"] * ay
    if pf == "camber":
        xi = np.linspace(0, 1, nx)[:, None]
        m[:, :, 2] += c["camber"] * 4 * xi * (1 - xi) * (m[-1, :, 0] - m[0, :, 0])[None, :]
    if pf == "twdi":
        m = pretwist(m, c["twist0"], c["twist1"])
    # enforce exact mirror symmetry
    h = (ny + 1) // 2
    m[:, h - 1 :, :] = m[:, :h][:, ::-1, :] * np.array([1, -1, 1])
    m[:, h - 1, 1] = 0.0
    return m


def make_mesh(pf, nx, ny, side="left", fam=0, asym=False, span=8.0, chord=1.5, offset=None):
    """side: 'left' / 'right' (ny = nodes of the modelled half) or 'full' (ny = all nodes, odd).
    asym adds a one-sided field (full span only) so that left and right differ."""
    if side == "full":
        m = full_symmetric(pf, nx, ny, fam, span, chord)
        if asym:
            c = {k: v[fam % 3] for k, v in _C.items()}
            m[:, :, 0] += c["asx"] * m[:, :, 1]
            m[:, :, 2] += c["asz"] * m[:, :, 1] + 0.01 * m[:, :, 1] ** 2 * (m[:, :, 1] > 0)
    else:
        f = full_symmetric(pf, nx, 2 * ny - 1, fam, span, chord)
        m = f[:, :ny].copy() if side == "left" else f[:, ny - 1 :].copy()
    if offset is not None:
        m = m + np.asarray(offset, dtype=float)
    return m


def force_floor(rho, v, meshes, rel=1e-6):
    """absolute floor for force scales: rel x dynamic pressure x planform area.  Keeps comparisons of forces that are
    pure round-off (a configuration that produces no lift at all) from dividing noise by noise."""
    area = 0.0
    for m in meshes:
        area += abs(m[-1, :, 0] - m[0, :, 0]).mean() * abs(m[0, -1, 1] - m[0, 0, 1])
    return rel * 0.5 * rho * v * v * max(area, 1e-12)


def mirror_mesh(m):
    """reflection about the x-z plane with reversed spanwise node order (y stays increasing)"""
    return (m * np.array([1.0, -1.0, 1.0]))[:, ::-1, :].copy()
