"""CLI: python -m oasmc.run <ID> [--tier quick|thorough] [--replay FILE] | --selftest"""
import argparse
import hashlib
import importlib
import json
import os
import subprocess
import sys
import time

ROOT = os.environ.get("OASMC_ROOT", "/verif")


def assert_env():
    import openaerostruct

    f = os.path.realpath(openaerostruct.__file__)
    want = os.path.realpath(os.environ.get("OASMC_REPO", "/repo")) + "/"
    if not f.startswith(want):
        print("INTERNAL: openaerostruct imported from %s, not from %s (PYTHONPATH must start with it)" % (f, want))
        sys.exit(2)


def load_findings():
    p = os.path.join(ROOT, "known_findings.json")
    if not os.path.exists(p):
        return []
    return json.load(open(p))["findings"]


def match_finding(findings, prop, sig):
    """a violation is a known finding iff an entry with status 'known' for this property has a
    signature all of whose keys are present with equal values in the violation's signature"""
    for f in findings:
        if f.get("status") != "known" or f["property"] != prop:
            continue
        if all(k in sig and sig[k] == v for k, v in f["signature"].items()):
            return f
    return None


def validate_evidence(path):
    schema = "/root/.vp/EVIDENCE.schema.json"
    if not os.path.exists(schema):
        schema = os.path.join(ROOT, "schemas", "EVIDENCE.schema.json")
    code = (
        "import json,sys,jsonschema; jsonschema.validate(json.load(open(sys.argv[1])), json.load(open(sys.argv[2])))"
    )
    for py in ("python3-vt", "/opt/veriftools/pyvenv/bin/python"):
        try:
            r = subprocess.run([py, "-c", code, path, schema], capture_output=True, text=True, timeout=120, env={"PATH": os.environ.get("PATH", "")})
        except (FileNotFoundError, subprocess.TimeoutExpired):
            continue
        if r.returncode != 0:
            print("INTERNAL: evidence file does not validate:\n" + r.stderr[-1500:])
            return False
        return True
    # validator not available: structural minimum
    d = json.load(open(path))
    return all(k in d for k in ("property_id", "tier", "seed", "level", "coverage", "wall_s"))


def main(argv=None):
    ap = argparse.ArgumentParser()
    ap.add_argument("id", nargs="?")
    ap.add_argument("--tier", default=os.environ.get("VERIF_TIER", "quick"), choices=["quick", "thorough"])
    ap.add_argument("--replay")
    ap.add_argument("--selftest", action="store_true")
    ap.add_argument("--no-confirm", action="store_true")
    ap.add_argument("--nproc", type=int)
    a = ap.parse_args(argv)
    assert_env()
    from oasmc import engine

    if a.selftest:
        from oasmc import selftest

        sys.exit(selftest.main())
    if not a.id:
        ap.error("property id required")
    pid = a.id.upper()
    try:
        seed = int(os.environ.get("VERIF_SEED", "0"))
    except ValueError:
        seed = 0
    check = importlib.import_module("oasmc.checks.%s" % pid.lower())
    findings = load_findings()

    if a.replay:
        rec = json.load(open(a.replay))
        # a record may carry the states the same worker process had executed before (hidden process-level state)
        for ps in rec.get("prefix", []):
            engine.run_one(check, ps)
        r = engine.run_one(check, rec["state"])
        if "error" in r:
            print("INTERNAL: harness error during replay\n" + r["error"])
            sys.exit(2)
        bad = 0
        for v in r.get("viol", []):
            kf = match_finding(findings, pid, v["sig"])
            if kf:
                print("KNOWN-FINDING: property=%s %s [%s]" % (pid, kf["id"], v["msg"]))
            else:
                bad += 1
                print("REPLAY-VIOLATION property=%s sig=%s :: %s" % (pid, engine.jdump(v["sig"]), v["msg"]))
        if bad:
            print("VIOLATION property=%s replay=%s" % (pid, a.replay))
            sys.exit(1)
        print("replay: property held on this state (%d known-finding hit(s))" % (len(r.get("viol", [])) - bad))
        sys.exit(0)

    t0 = time.time()
    try:
        states, results, n_inadm, wall = engine.explore(check, a.tier, seed, nproc=a.nproc)
    except engine.InternalError as e:
        print("INTERNAL: %s" % e)
        sys.exit(2)

    # ---- aggregate
    n_states = len(states)
    transitions = sum(int(r.get("transitions", 1)) for r in results)
    validated = sum(int(r.get("validated", 0)) for r in results)
    unreliable = sum(int(r.get("unreliable", 0)) for r in results)
    entries = sum(int(r.get("entries", 0)) for r in results)
    n_inadm += sum(1 for r in results if r.get("inadmissible"))
    digests = set()
    nontrivial_digests = set()
    for s, r in zip(states, results):
        d = r.get("digest", "")
        digests.add(d)
        if r.get("nontrivial"):
            nontrivial_digests.add((engine.jdump(s), d))
    extra = {}
    for r in results:
        for k, v in (r.get("counters") or {}).items():
            extra[k] = extra.get(k, 0) + v

    groups = {}
    for i, (s, r) in enumerate(zip(states, results)):
        for v in r.get("viol", []):
            k = engine.sigkey(v["sig"])
            g = groups.setdefault(k, dict(sig=v["sig"], first=i, count=0, msg=v["msg"], worst=0.0))
            g["count"] += 1
            m = v.get("measure")
            if isinstance(m, (int, float)) and m == m:
                g["worst"] = max(g["worst"], abs(m))

    known_hit, new = {}, []
    for k, g in groups.items():
        kf = match_finding(findings, pid, g["sig"])
        if kf:
            e = known_hit.setdefault(kf["id"], dict(entry=kf, count=0, states=0, example=g))
            e["count"] += g["count"]
            e["states"] += 1
        else:
            new.append(g)
    new.sort(key=lambda g: g["first"])

    exit_code = 0
    for fid, e in sorted(known_hit.items()):
        print("KNOWN-FINDING: property=%s %s: %s (%d occurrence(s) in this run, e.g. %s)" % (pid, fid, e["entry"]["what"], e["count"], e["example"]["msg"][:160]))
    # a 'known' entry that is listed for this tier but was not reproduced is reported (not an error: the
    # defect may have been repaired); it never suppresses anything
    for f in findings:
        if f.get("status") == "known" and f["property"] == pid and f["id"] not in known_hit:
            if a.tier in f.get("tiers", ["quick", "thorough"]):
                print("note: known finding %s was not reproduced in this run" % f["id"])

    replay_paths = []
    if new:
        os.makedirs(os.path.join(ROOT, "replays", pid), exist_ok=True)
        nondeterministic = False
        for g in new[:25]:
            s = states[g["first"]]
            rec = dict(property=pid, state=s, signature=g["sig"], message=g["msg"], count=g["count"], tier=a.tier, seed=seed)
            name = hashlib.sha256(engine.jdump([s, g["sig"]]).encode()).hexdigest()[:16] + ".json"
            path = os.path.join(ROOT, "replays", pid, name)
            with open(path, "w") as fh:
                fh.write(engine.jdump(rec))
            ok = True
            if not a.no_confirm and len(replay_paths) < 4:
                pr = subprocess.run([os.path.join(ROOT, "check"), pid, "--replay", path], capture_output=True, text=True)
                ok = pr.returncode == 1
                if not ok:
                    # not reproducible from the state alone: retry with everything the same worker process had executed
                    # before it.  If THAT reproduces, the result depends on hidden process-level state (a module-level or
                    # class-level cache): a genuine violation, reported with the prefix in the replay record.
                    prefix = engine.worker_prefix(states, results, g["first"])
                    if prefix:
                        rec["prefix"] = prefix
                        rec["note"] = "reproduces only after the listed prefix of other states in the same process"
                        with open(path, "w") as fh:
                            fh.write(engine.jdump(rec))
                        pr2 = subprocess.run([os.path.join(ROOT, "check"), pid, "--replay", path], capture_output=True, text=True)
                        ok = pr2.returncode == 1
                        if ok:
                            print("  (depends on process history: reproduced with a prefix of %d earlier state(s) of the same worker)" % len(prefix))
                if not ok:
                    nondeterministic = True
                    print("INTERNAL: violation did not reproduce from its replay record %s (exit %d)\n%s" % (path, pr.returncode, (pr.stdout + pr.stderr)[-1200:]))
            if ok:
                replay_paths.append(path)
                print("  violation (%d state(s), worst %.3g): sig=%s :: %s" % (g["count"], g["worst"], engine.jdump(g["sig"]), g["msg"][:300]))
                print("VIOLATION property=%s replay=%s" % (pid, path))
        if len(new) > 25:
            print("  ... and %d more distinct violation signatures" % (len(new) - 25))
        exit_code = 2 if (nondeterministic and not replay_paths) else 1

    frac_unrel = unreliable / entries if entries else 0.0
    if frac_unrel > 0.01 and exit_code == 0:
        print("INTERNAL: derivative oracle unreliable on %.2f%% of entries" % (100 * frac_unrel))
        exit_code = 2

    # ---- evidence
    samples = [states[0], states[-1]] + [states[g["first"]] for g in new[:5]]
    hits = engine.letter_hits(states)
    cov = dict(
        states=n_states,
        transitions=transitions,
        traces_validated_against_impl=validated,
        samples=samples,
        evaluations=transitions,
        distinct_nontrivial=len(nontrivial_digests),
        distinct_outcomes=len(digests),
        rule=getattr(check, "RULE", ""),
        exhaustive=True,
        inadmissible=n_inadm,
        oracle_unreliable=unreliable,
        oracle_entries=entries,
        axes={k: v for k, v in hits.items() if len(v) <= 40},
        bound=getattr(check, "BOUND", {}).get(a.tier, "") if isinstance(getattr(check, "BOUND", None), dict) else getattr(check, "BOUND", ""),
        seed_family=seed % 3,
        known_findings_matched=sorted(known_hit),
        new_violation_signatures=len(new),
        slowest_state_s=round(max(r.get("wall", 0) for r in results), 3),
    )
    cov.update(extra)
    if hasattr(check, "coverage_extra"):
        cov.update(check.coverage_extra(states, results))
    ev = dict(
        property_id=pid,
        tier=a.tier,
        seed=seed,
        level="model_checking",
        coverage=cov,
        assumptions=list(getattr(check, "ASSUMPTIONS", [])),
        wall_s=round(time.time() - t0, 2),
        violations=len(new),
    )
    evdir = os.path.join(ROOT, "evidence")
    if os.path.realpath(os.environ.get("OASMC_REPO", "/repo")) != "/repo":
        # scratch-worktree runs (seeded changes) never touch the committed evidence
        evdir = os.path.join(os.environ.get("TMPDIR", "/tmp"), "oasmc_evidence_alt")
    os.makedirs(evdir, exist_ok=True)
    evp = os.path.join(evdir, "%s.json" % pid)
    with open(evp, "w") as fh:
        json.dump(ev, fh, indent=1, default=engine._js)
    if not validate_evidence(evp) and exit_code == 0:
        exit_code = 2
    print(
        "%s %s: states=%d transitions=%d validated=%d distinct_outcomes=%d nontrivial=%d inadmissible=%d unreliable=%d/%d known=%d new=%d wall=%.1fs"
        % (pid, a.tier, n_states, transitions, validated, len(digests), len(nontrivial_digests), n_inadm, unreliable, entries, len(known_hit), len(new), time.time() - t0)
    )
    if len(digests) < 2 and n_states > 3:
        print("INTERNAL: vacuous exploration (a single distinct outcome)")
        exit_code = exit_code or 2
    sys.exit(exit_code)


if __name__ == "__main__":
    main()
