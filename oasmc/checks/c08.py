"""C08 - ground effect equals the method of images and vanishes far from the ground."""
import itertools

import numpy as np

from oasmc import builders, gen
from oasmc.checks.c05 import full_of
from oasmc.engine import digest_arrays
from oasmc.ref import ref_vlm

ID = "C08"
RULE = (
    "complete product of surface-set x side x planform x nx x ny x alpha x h/b (part a: ground-plane model vs explicit image "
    "model, both with the real code and with the independent solver), height ladders (part b) and all rejected set-ups (part c); "
    "non-trivial = the ground-effect increment of the sectional forces is non-zero"
)
ASSUMPTIONS = [
    "finite alphabets for alpha, h/b and planforms; nx<=4, half ny<=4, <=2 surfaces",
    "reference solver oasmc/ref/ref_vlm.py; OpenMDAO/NumPy/SciPy trusted",
]
BOUND = {"quick": "nx<=3 (+ one planform with nx=4, two production-size lattices of 66 / 68 panels), half ny<=3, alpha in {0,5,12,-4}, h/b in {0.005,0.1,0.25,1,5}", "thorough": "nx<=4, half ny<=4, h/b in {0.005,0.02,0.05,0.1,0.25,1,5,20}"}
TOL = 1e-9
SPAN = 8.0


def plane(alpha, h):
    a = np.radians(alpha)
    n = np.array([np.sin(a), 0.0, -np.cos(a)])
    return n, n * h


def reflect(X, alpha, h):
    n, pt = plane(alpha, h)
    return X - 2 * np.einsum("...k,k->...", X - pt, n)[..., None] * n


def above(X, alpha, h):
    n, pt = plane(alpha, h)
    return float(np.min(-np.einsum("...k,k->...", X - pt, n)))


def specs(tier):
    pfs = ["rect", "swept", "twdi"] + (["camber"] if tier == "thorough" else [])
    nxs = [2, 3] if tier == "quick" else [2, 3, 4]
    nys = [3] if tier == "quick" else [2, 3, 4]
    out = []
    for pf, nx, ny, side in itertools.product(pfs, nxs, nys, ["left", "right"]):
        if pf == "camber" and nx < 3:
            continue
        out.append([dict(pf=pf, nx=nx, ny=ny, side=side, off=None)])
    for side in ["left", "right"]:
        # tandem surfaces of identical mesh shape (anything keyed on the shape would be shared)
        out.append([dict(pf="swept", nx=3, ny=3, side=side, off=None), dict(pf="rect", nx=3, ny=3, side=side, off=[5.0, 0.0, 0.7], span=6.0, chord=0.9)])
        if tier == "quick":
            # nx = 4 is the smallest mesh with an interior chordwise panel row
            out.append([dict(pf="twdi", nx=4, ny=3, side=side, off=None)])
        out.append([dict(pf="swept", nx=3, ny=3, side=side, off=None), dict(pf="rect", nx=2, ny=2, side=side, off=[5.0, 0.0, 0.7], span=3.0, chord=0.8)])
        if tier == "thorough":
            out.append([dict(pf="twdi", nx=2, ny=4, side=side, off=None), dict(pf="swept", nx=3, ny=3, side=side, off=[5.0, 0.0, 0.7], span=3.0, chord=0.8)])
    # production-size lattices (66 and 68 panels: above, and not a multiple of, any small power-of-two block size)
    out.append([dict(pf="swept", nx=3, ny=21, side="left", off=None), dict(pf="rect", nx=3, ny=14, side="left", off=[5.0, 0.0, 0.7], span=6.0, chord=0.9)])
    out.append([dict(pf="twdi", nx=5, ny=18, side="right", off=None)])
    return out


def states(tier, seed):
    fam = seed % 3
    st, inadm = [], 0
    hb = [0.005, 0.1, 0.25, 1.0, 5.0] if tier == "quick" else [0.005, 0.02, 0.05, 0.1, 0.25, 1.0, 5.0, 20.0]  # in spans; the smallest: extreme ground effect (centimetres)
    for ss, alpha, r in itertools.product(specs(tier), [0.0, 5.0, 12.0, -4.0], hb):
        s = dict(part="image", surfs=ss, alpha=alpha, h=r * SPAN, fam=fam)
        if min(above(mesh_of(sp, fam), alpha, s["h"]) for sp in ss) <= 1e-3:
            inadm += 1
            continue
        st.append(s)
    lad = specs(tier)
    lad = lad[:: max(1, len(lad) // (6 if tier == "quick" else 24))]
    for ss, alpha in itertools.product(lad, [5.0, 12.0] if tier == "quick" else [0.0, 5.0, 12.0, -4.0]):
        st.append(dict(part="ladder", surfs=ss, alpha=alpha, fam=fam))
    # ground effect inside the aerostructural point: far from the ground the coupled solution tends to the free-air one
    for model, side, alpha in itertools.product(["tube", "wingbox"], ["left", "right"], [3.0, 8.0]):
        st.append(dict(part="asfar", model=model, side=side, alpha=alpha, fam=fam))
    # rejection: ground effect without symmetry
    for ns in (1, 2, 3):
        for pos in range(ns):
            for nx, ny in itertools.product([2, 3], [3, 5] if tier == "quick" else [3, 5, 7]):
                for group in ("AeroPoint", "AerostructPoint"):
                    st.append(dict(part="reject", nsurf=ns, pos=pos, nx=nx, ny=ny, group=group, fam=fam))
    return st, inadm


def mesh_of(spec, fam):
    kw = dict(span=spec["span"], chord=spec["chord"]) if "span" in spec else {}
    return gen.make_mesh(spec["pf"], spec["nx"], spec["ny"], spec["side"], fam, offset=spec["off"], **kw)


def aero(meshes, alpha, ground=False, h=None, v=50.0, rho=1.1):
    surfs = [builders.aero_surface("s%d" % k, m, True, groundplane=ground) if ground else builders.aero_surface("s%d" % k, m, True) for k, m in enumerate(meshes)]
    fl = dict(v=v, alpha=alpha, rho=rho, cg=[0.3, 0.0, 0.1])
    if ground:
        fl["height_agl"] = h
    p = builders.build_aero(surfs, fl)
    p.run_model()
    return p


def run_state(s):
    return globals()["part_" + s["part"]](s)


def part_asfar(s):
    m = gen.make_mesh("swept", 2, 3, s["side"], s["fam"], span=10.0, chord=1.6)
    res = []
    for h in (None, 20.0, 2.0e2, 2.0e3, 2.0e5):
        kw = dict(struct_weight_relief=True, with_viscous=True)
        if h is not None:
            kw["groundplane"] = True
        surf = builders.struct_surface("wing", m, True, s["model"], **kw)
        fl = dict(Mach_number=0.5, W0=2.0e3, v=100.0, rho=0.9, alpha=s["alpha"], speed_of_sound=200.0, R=2.0e6, load_factor=1.3)
        if h is not None:
            fl["height_agl"] = h
        p = builders.build_aerostruct([surf], fl)
        builders.tighten(p, nl="default", lin="default")
        p.run_model()
        A = "AS_point_0."
        res.append(np.concatenate([p[A + "CL"], p[A + "CD"], p[A + "fuelburn"] / 1e3, p[A + "coupled.wing.disp"].ravel() * 10, p[A + "wing_perf.failure"].ravel()]))
    viol, val = [], 0
    free = res[0]
    d = [np.abs(r - free).max() / max(np.abs(free).max(), 1e-300) for r in res[1:]]
    for k in range(1, len(d)):
        val += 1
        if not d[k] <= d[k - 1] + 1e-9:
            viol.append(dict(sig=dict(oracle="aerostructural_height_ladder_monotone", model=s["model"]), msg="difference to the free-air aerostructural solution grows with height: %s" % np.array2string(np.array(d), precision=3), measure=float(d[k])))
    val += 1
    if not d[-1] <= 1e-7:
        viol.append(dict(sig=dict(oracle="aerostructural_far_field_limit", model=s["model"]), msg="at h = 2e5 m the ground-effect aerostructural solution still differs from free air by %.2e" % d[-1], measure=float(d[-1])))
    return dict(viol=viol, nontrivial=bool(d[0] > 1e-6), digest=digest_arrays(*res), transitions=5, validated=val)


def part_image(s):
    fam = s["fam"]
    meshes = [mesh_of(sp, fam) for sp in s["surfs"]]
    n = len(meshes)
    alpha, h = s["alpha"], s["h"]
    pg = aero(meshes, alpha, True, h)
    pf = aero(meshes, alpha)
    images = [reflect(m, alpha, h) for m in meshes]
    pi = aero(meshes + images, alpha)
    fulls = [full_of(m, sp["side"]) for m, sp in zip(meshes, s["surfs"])]
    ref = ref_vlm.solve(fulls + [reflect(f, alpha, h) for f in fulls], alpha, 0.0, 50.0, 1.1)
    viol = []
    validated = 0
    Fg = [pg["ap.aero_states.s%d_sec_forces" % k] for k in range(n)]
    Ff = [pf["ap.aero_states.s%d_sec_forces" % k] for k in range(n)]
    Fi = [pi["ap.aero_states.s%d_sec_forces" % k] for k in range(n)]
    sc = max(max(np.abs(F).max() for F in Fg), gen.force_floor(1.1, 50.0, meshes))
    wh = dict(nsurf=n, side=s["surfs"][0]["side"])
    for k in range(n):
        validated += 2
        e = np.abs(Fg[k] - Fi[k]).max() / sc
        if not e <= TOL:
            viol.append(dict(sig=dict(oracle="native_image_model", observable="sec_forces", **wh), msg="ground-plane forces differ from explicit image model by %.2e" % e, measure=float(e)))
        sp = s["surfs"][k]
        nyp = meshes[k].shape[1] - 1
        Fr = ref["F"][k][:, :nyp] if sp["side"] == "left" else ref["F"][k][:, nyp:]
        e = np.abs(Fg[k] - Fr).max() / sc
        if not e <= TOL:
            viol.append(dict(sig=dict(oracle="ref_vlm_images", observable="sec_forces", **wh), msg="ground-plane forces differ from the independent image solution by %.2e" % e, measure=float(e)))
        for q in ("CL", "CDi"):
            validated += 1
            a, b = pg["ap.s%d_perf.%s" % (k, q)][0], pi["ap.s%d_perf.%s" % (k, q)][0]
            if not abs(a - b) <= TOL * max(abs(b), 1e-3):
                viol.append(dict(sig=dict(oracle="native_image_model", observable=q, **wh), msg="%s %.12g vs image model %.12g" % (q, a, b), measure=float(abs(a - b))))
    # the image strengths must be the negative of the originals
    validated += 1
    N = sum((m.shape[0] - 1) * (m.shape[1] - 1) for m in meshes)
    g = pi["ap.circulations"]
    e = np.abs(g[N:] + g[:N]).max() / max(np.abs(g).max(), 1e-300)
    if not e <= 1e-8:
        viol.append(dict(sig=dict(oracle="image_strength"), msg="harness: image strengths are not -Gamma (%.2e)" % e, measure=float(e)))
    # aircraft coefficients of the ground model = those computed from its (validated) forces: compare CM, CL, CD
    # against a free-air AeroPoint cannot be done (different physics); they are covered via sec_forces + C17.
    inc = max(np.abs(a - b).max() for a, b in zip(Fg, Ff)) / sc
    return dict(viol=viol, nontrivial=bool(inc > 1e-9), digest=digest_arrays(*Fg), transitions=4, validated=validated)


LADDER = [1.0, 10.0, 1e2, 1e4, 1e6]


def part_ladder(s):
    fam = s["fam"]
    meshes = [mesh_of(sp, fam) for sp in s["surfs"]]
    alpha = s["alpha"]
    pf = aero(meshes, alpha)
    base = np.array([pf["ap.CL"][0], pf["ap.CD"][0], pf["ap.CM"][1]])
    Fb = np.concatenate([pf["ap.aero_states.s%d_sec_forces" % k].ravel() for k in range(len(meshes))])
    sc = max(np.abs(Fb).max(), gen.force_floor(1.1, 50.0, meshes))
    deltas, dF = [], []
    for r in LADDER:
        pg = aero(meshes, alpha, True, r * SPAN)
        q = np.array([pg["ap.CL"][0], pg["ap.CD"][0], pg["ap.CM"][1]])
        deltas.append(np.abs(q - base))
        Fg = np.concatenate([pg["ap.aero_states.s%d_sec_forces" % k].ravel() for k in range(len(meshes))])
        dF.append(np.abs(Fg - Fb).max() / sc)
    deltas = np.array(deltas)
    viol = []
    floor = 1e-11
    names = ["CL", "CD", "CM"]
    lift = abs(base[0]) > 1e-6
    for j, nm in enumerate(names):
        for k in range(1, len(LADDER)):
            if deltas[k, j] > max(deltas[k - 1, j], floor) * (1 + 1e-9):
                viol.append(dict(sig=dict(oracle="height_ladder_monotone", observable=nm), msg="|d%s| grows from h/b=%g to %g: %.3e -> %.3e" % (nm, LADDER[k - 1], LADDER[k], deltas[k - 1, j], deltas[k, j]), measure=float(deltas[k, j])))
    # far field: forces converge to free air like (b/h)^2
    for k, r in enumerate(LADDER):
        bound = 0.1 / r**2 + 1e-10
        if not dF[k] <= bound:
            viol.append(dict(sig=dict(oracle="height_ladder_decay", observable="sec_forces"), msg="relative force increment %.3e at h/b=%g exceeds 0.1(b/h)^2" % (dF[k], r), measure=float(dF[k])))
    if lift and not dF[0] > 1e-7:
        viol.append(dict(sig=dict(oracle="height_ladder_effect", observable="sec_forces"), msg="no ground effect at h=b (%.1e)" % dF[0], measure=float(dF[0])))
    return dict(viol=viol, nontrivial=bool(lift), digest=digest_arrays(deltas), transitions=1 + len(LADDER), validated=len(LADDER) * 4)


def part_reject(s):
    import openmdao.api as om

    ns, pos = s["nsurf"], s["pos"]
    surfs = []
    for k in range(ns):
        bad = k == pos
        if bad:
            m = gen.make_mesh("swept", s["nx"], s["ny"], "full", s["fam"], offset=[6.0 * k, 0, 0.5 * k])
        else:
            m = gen.make_mesh("swept", 2, 3, "left", s["fam"], offset=[6.0 * k, 0, 0.5 * k])
        if s["group"] == "AeroPoint":
            surfs.append(builders.aero_surface("s%d" % k, m, not bad, groundplane=True))
        else:
            surfs.append(builders.struct_surface("s%d" % k, m, not bad, groundplane=True))
    raised = None
    try:
        if s["group"] == "AeroPoint":
            p = builders.build_aero(surfs, dict(height_agl=10.0))
        else:
            p = builders.build_aerostruct(surfs, dict(height_agl=10.0))
        p.final_setup()
    except ValueError as e:
        raised = "ValueError"
    except Exception as e:  # noqa
        raised = type(e).__name__
    viol = []
    if raised != "ValueError":
        viol.append(dict(sig=dict(oracle="reject_ground_without_symmetry", group=s["group"], got=str(raised)), msg="groundplane=True with symmetry=False on surface %d of %d: expected ValueError at set-up, got %s" % (pos, ns, raised), measure=1.0))
    return dict(viol=viol, nontrivial=True, digest="reject:%s" % raised, transitions=1, validated=1)
