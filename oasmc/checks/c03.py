"""C03 - outputs and derivatives depend only on the current point, not on history."""
import itertools

import numpy as np
import openmdao.api as om

from oasmc import builders, gen, history
from oasmc.checks import c01_cases as cases

ID = "C03"
ENGINE = "H"
TECHNIQUE = "explicit-state breadth-first exploration of operation histories on live Problems with state-digest pruning (component level) and complete enumeration of all histories within a deviation bound from the optimiser pattern (group level); every state compared with a freshly built problem"
RULE = (
    "component level: breadth-first search over ALL histories of {goto(P0..P2), set(P0..P2), linearise, compute_totals, run_model, "
    "check_partials} on each stateful component in fwd and rev mode, pruned on a digest of every number reachable from the component "
    "(attributes, caches, LU factors, Jacobian storage, vectors, module-level arrays), to closure or the depth bound; group level: ALL "
    "histories with at most k deviations (inserted operations) from the optimiser pattern goto,tot,goto,tot,goto,tot on AeroPoint / "
    "AerostructPoint models (aero, rotational, compressible with sideslip, compressible with rotation, structure-alone tube / wingbox, aerostructural tube / wingbox / point masses + fuel); for EVERY component model the histories with prob.setup() repeated on the live Problem ([goto P0, totals, setup, goto P1, totals], [goto P1, setup, setup, goto P0, totals]); for EVERY model and EVERY input the history [goto P0, totals, change ONLY that input to its P1/P2 value, totals]; after every history each probe (read outputs, totals, re-run then read, re-run then totals) must equal a "
    "fresh problem evaluated once at the current point; non-trivial = distinct state digests"
)
ASSUMPTIONS = [
    "three design points per model (enough for 'stale value from the point before last'), the third with every zeroable input (thrusts, masses, rates, fuel, twist, shears, forces, circulations, displacements, alpha ...) at exactly zero; summary-preserving single-input transitions; depth / deviation bounds as stated",
    "histories containing check_partials are compared at 1e-4 of the row scale (the framework leaves FD values in constant sub-Jacobians); others at 1e-10 (direct) / 1e-7 (coupled)",
    "invariants are evaluated only in states where the model has been run at the current inputs (plus after an explicit re-run)",
    "OpenMDAO/NumPy/SciPy trusted",
]
BOUND = {"quick": "component level: depth 3 after the initial goto (closure where reached); group level: <=1 deviation (aero: <=2)", "thorough": "component level: depth 5; group level: <=2 deviations (aero <=3), check_partials included"}

COMP_MODELS = [
    ("MomentCoefficient", dict(ns=1, side="full")),
    ("MomentCoefficient", dict(ns=2, side="left")),
    ("VLMMtxRHSComp", dict(nx=2, ny=3, side="left", pf="twdi", nsurf=2, ground=False)),
    ("SolveMatrix", dict(nx=2, ny=3, side="left", pf="twdi", nsurf=1, ground=False)),
    ("FEM", dict(nx=2, ny=3, side="left", pf="twdi", model="tube")),
    ("FEM", dict(nx=2, ny=5, side="full", pf="twdi", model="tube")),
    ("VonMisesTube", dict(nx=2, ny=3, side="left", pf="twdi", model="tube")),
    ("VortexMesh", dict(nx=2, ny=3, side="left", pf="twdi", nsurf=2, ground=True)),
    ("VortexMesh", dict(nx=3, ny=3, side="right", pf="twdi", nsurf=1, ground=True)),
    ("ViscousDrag", dict(nx=2, ny=3, side="left", pf="twdi", k_lam=0.05, visc=True)),
    ("WaveDrag", dict(nx=2, ny=3, side="left", pf="twdi", M=0.9, wave=True)),
    ("LoadTransfer", dict(nx=3, ny=3, side="left", pf="twdi", model="tube")),
    ("Rotate", dict(nx=2, ny=3, side="left", pf="twdi", rap=0.25, rotate_x=True)),
    ("Taper", dict(nx=2, ny=3, side="left", pf="twdi", rap=0.25)),
    ("Sweep", dict(nx=2, ny=5, side="full", pf="twdi")),
    ("Stretch", dict(nx=2, ny=3, side="left", pf="twdi", rap=0.25)),
    ("StructureWeightLoads", dict(nx=2, ny=3, side="left", pf="twdi", model="tube")),
    ("HorseshoeCirculations", dict(nx=3, ny=3, side="left", pf="twdi", nsurf=2, ground=False)),
    ("VLMGeometry", dict(nx=2, ny=3, side="left", pf="twdi", sref="projected")),
    ("LocalStiff", dict(nx=2, ny=3, side="left", pf="twdi", model="tube")),
    ("EvalVelMtx", dict(nx=2, ny=3, side="left", pf="twdi", nsurf=1, ground=True)),
    ("DisplacementTransfer", dict(nx=2, ny=3, side="left", pf="twdi", model="tube")),
]

# every other component of the C01 registry, explored to a shallower depth (its first and last configuration)
DEEP = len(COMP_MODELS)
_seen = {n for n, _ in COMP_MODELS}
for _name, _case in cases.CASES.items():
    _cfgs = _case.cfgs("quick")
    for _cfg in ([_cfgs[0], _cfgs[-1]] if len(_cfgs) > 1 else _cfgs):
        if (_name, _cfg) not in COMP_MODELS:
            COMP_MODELS.append((_name, _cfg))

# inputs that are set to exactly zero in the third design point (where the component declares them): 'engines off',
# 'no rotation', 'no fuel', 'zero twist' ... are ordinary admissible values on which shortcuts tend to be keyed
ZEROABLE = ("engine_thrusts", "point_masses", "omega", "fuel_mass", "twist", "xshear", "yshear", "zshear", "sweep", "dihedral", "beta", "rotational_velocities", "loads", "struct_weight_loads", "fuel_weight_loads", "loads_from_point_masses", "loads_from_thrusts", "CDw", "CL0", "sec_forces", "panel_forces", "circulations", "horseshoe_circulations", "disp", "mesh_point_forces", "forces", "alpha")

_MODELS = {}


def comp_model(idx, fam):
    key = ("comp", idx, fam)
    if key in _MODELS:
        return _MODELS[key]
    name, cfg = COMP_MODELS[idx]
    case = cases.CASES[name]
    from oasmc.checks import c01

    def mk(kind):
        return dict(comp=name, cfg=cfg, kind=kind, fam=fam)

    def build(mode):
        p = om.Problem(reports=False)
        p.model.add_subsystem("c", case.make(mk("gen0")), promotes=["*"])
        p.setup(mode=mode)
        p.final_setup()
        return p

    p0 = build("fwd")
    ins = list(p0.model.c._var_rel_names["input"])
    outs = [o for o in p0.model.c._var_rel_names["output"] if o not in case.opts.get("skip_of", ())]
    kinds = ["gen0", "gen1", "special"]
    pts = []
    for kd in kinds:
        spec = case.point(mk(kd), kd)
        r = c01.resolve(p0, spec, ins, mk(kd), kd)
        if kd == "special":
            # third point: the special values where the case defines them, otherwise a third generic point
            r2 = c01.resolve(p0, case.point(mk("gen0"), "gen0"), ins, mk("gen0"), "gen0")
            r = {n: (0.5 * (r[n] + 1.7 * pts[1][n]) if np.array_equal(r[n], r2[n]) else r[n]) for n in ins}
            for n in ins:
                if n in ZEROABLE or any(n.endswith("_" + z) for z in ZEROABLE):
                    r[n] = np.zeros_like(r[n])
        pts.append(r)
    m = history.Model("%s#%d" % (name, idx), build, pts, outs, ins, tol=1e-10)
    _MODELS[key] = m
    return m


def group_model(which, fam):
    key = ("group", which, fam)
    if key in _MODELS:
        return _MODELS[key]
    if which == "aero":
        def build(mode):
            m = gen.make_mesh("twdi", 2, 3, "left", fam)
            w = builders.aero_surface("wing", m, True, with_viscous=True, with_wave=True, groundplane=True, twist_cp=np.array([1.0, 2.0, 0.5]), CD0=0.01)
            p = builders.build_aero([w], dict(v=200.0, alpha=3.0, rho=0.5, re=2e6, Mach_number=0.84, height_agl=6.0, cg=[0.5, 0.0, 0.1]), with_geom=True, mode=mode)
            return p

        pts = [dict(alpha=3.0, v=200.0, Mach_number=0.84), dict(alpha=-2.0, v=120.0, Mach_number=0.6), dict(alpha=6.0, v=60.0, Mach_number=0.9)]
        for k, tw in enumerate([[1.0, 2.0, 0.5], [0.0, -1.0, 2.0], [3.0, 1.0, 1.0]]):
            pts[k]["wing.twist_cp"] = np.array(tw)
            pts[k]["height_agl"] = [6.0, 9.0, 4.0][k]
        mdl = history.Model("AeroPoint", build, pts, ["ap.CL", "ap.CD", "ap.CM", "ap.total_perf.moment.M"], ["alpha", "v", "Mach_number", "wing.twist_cp", "height_agl", "cg"], tol=1e-10)
    elif which == "aero_rot":
        def build(mode):
            m = gen.make_mesh("twdi", 2, 5, "full", fam, asym=True)
            w = builders.aero_surface("wing", m, False, with_viscous=True, twist_cp=np.array([1.0, 2.0, 0.5]), CD0=0.01)
            return builders.build_aero([w], dict(v=70.0, alpha=3.0, beta=2.0, rho=1.0, re=2e6, Mach_number=0.3, cg=[0.5, 0.1, 0.1], omega=[0.3, -0.1, 0.2]), with_geom=True, mode=mode, rotational=True)

        pts = [dict(alpha=3.0, omega=np.array([0.3, -0.1, 0.2])), dict(alpha=3.0, omega=np.zeros(3)), dict(alpha=-2.0, omega=np.array([0.0, 0.2, 0.0]), beta=0.0)]
        for k in (0, 1, 2):
            pts[k].setdefault("beta", 2.0)
        mdl = history.Model("AeroPoint_rotational", build, pts, ["ap.CL", "ap.CD", "ap.CM"], ["alpha", "beta", "omega", "cg"], tol=1e-10)
    elif which == "aero_beta":
        def build(mode):
            m = gen.make_mesh("twdi", 2, 5, "full", fam, asym=True)
            w = builders.aero_surface("wing", m, False, with_viscous=True, with_wave=True, twist_cp=np.array([1.0, 2.0, 0.5]), CD0=0.01)
            return builders.build_aero([w], dict(v=200.0, alpha=3.0, beta=2.0, rho=0.5, re=2e6, Mach_number=0.7, cg=[0.5, 0.1, 0.1]), with_geom=True, mode=mode, compressible=True)

        pts = [
            {"alpha": 3.0, "beta": 2.0, "Mach_number": 0.7, "wing.twist_cp": np.array([1.0, 2.0, 0.5])},
            {"alpha": 3.0, "beta": -4.0, "Mach_number": 0.7, "wing.twist_cp": np.array([1.0, 2.0, 0.5])},
            {"alpha": -1.0, "beta": 0.0, "Mach_number": 0.5, "wing.twist_cp": np.array([0.0, -1.0, 2.0])},
        ]
        mdl = history.Model("AeroPoint_compressible_sideslip", build, pts, ["ap.CL", "ap.CD", "ap.CM"], ["alpha", "beta", "Mach_number", "wing.twist_cp"], tol=1e-10)
    elif which == "aero_comprot":
        # the compressible option together with rotation rates (the rotational onset flow goes through the Prandtl-Glauert chain)
        def build(mode):
            m = gen.make_mesh("twdi", 2, 5, "full", fam, asym=True)
            w = builders.aero_surface("wing", m, False, with_viscous=True, twist_cp=np.array([1.0, 2.0, 0.5]), CD0=0.01)
            return builders.build_aero([w], dict(v=200.0, alpha=3.0, beta=2.0, rho=0.5, re=2e6, Mach_number=0.6, cg=[0.5, 0.1, 0.1], omega=[0.3, -0.1, 0.2]), with_geom=True, mode=mode, rotational=True, compressible=True)

        pts = [
            {"alpha": 3.0, "beta": 2.0, "Mach_number": 0.6, "omega": np.array([0.3, -0.1, 0.2])},
            {"alpha": 3.0, "beta": 2.0, "Mach_number": 0.6, "omega": np.zeros(3)},
            {"alpha": -2.0, "beta": 0.0, "Mach_number": 0.3, "omega": np.array([0.0, 0.2, 0.0])},
        ]
        mdl = history.Model("AeroPoint_compressible_rotational", build, pts, ["ap.CL", "ap.CD", "ap.CM"], ["alpha", "beta", "Mach_number", "omega", "cg"], tol=1e-10)
    elif which in ("struct_tube", "struct_wingbox"):
        model = which.split("_")[1]

        def build(mode):
            m = gen.make_mesh("twdi", 2, 4, "left", fam, span=10.0, chord=1.6)
            kw = dict(struct_weight_relief=True, twist_cp=np.array([2.0, 3.0, 1.0]))
            if model == "tube":
                kw["thickness_cp"] = np.array([0.015, 0.02, 0.03])
            else:
                kw.update(spar_thickness_cp=np.array([0.004, 0.006, 0.008]), skin_thickness_cp=np.array([0.008, 0.012, 0.016]))
            sf = builders.struct_surface("wing", m, True, model, **kw)
            return builders.build_struct(sf, np.concatenate([gen.gen((4, 3), 3, -2e3, 4e3, fam), gen.gen((4, 3), 4, -5e2, 5e2, fam)], axis=1), mode=mode, load_factor=1.5)

        tk = "thickness_cp" if model == "tube" else "spar_thickness_cp"
        base = np.array([0.015, 0.02, 0.03]) if model == "tube" else np.array([0.004, 0.006, 0.008])
        L0 = np.concatenate([gen.gen((4, 3), 3, -2e3, 4e3, fam), gen.gen((4, 3), 4, -5e2, 5e2, fam)], axis=1)
        pts = [
            {"loads": L0, tk: base, "load_factor": 1.5},
            # structure only (same loads): the factorisation changes, the seeds of a response linear in the displacements do not
            {"loads": L0, tk: base * 1.4, "load_factor": 1.5},
            {"loads": -0.5 * L0[::-1], tk: base * 0.8, "load_factor": 2.5},
        ]
        mdl = history.Model("SpatialBeamAlone_" + model, build, pts, ["failure", "structural_mass", "disp", "vonmises"], ["loads", tk, "load_factor", "geometry.twist_cp"], tol=1e-10, has_chk=False)
        # has_chk=False: check_partials overwrites the CONSTANT permutation Jacobian of LocalStiffPermuted (entries 1.0) with forward
        # differences of stiffness values of order 1e9 (relative error 5e-2) and the framework never restores it - the framework
        # residue of DESIGN section 2, here far above any useful tolerance, so the operation is left out of this model's alphabet
    elif which == "as_pm":
        def build(mode):
            m = gen.make_mesh("twdi", 2, 3, "left", fam, span=10.0, chord=1.6)
            s_ = builders.struct_surface("wing", m, True, "wingbox", struct_weight_relief=True, distributed_fuel_weight=True, with_viscous=True, n_point_masses=1, twist_cp=np.array([2.0, 3.0, 1.0]), spar_thickness_cp=np.array([0.004, 0.006, 0.008]), skin_thickness_cp=np.array([0.008, 0.012, 0.016]))
            p = builders.build_aerostruct([s_], dict(Mach_number=0.5, W0=2.0e3, v=100.0, rho=0.9, alpha=4.0, speed_of_sound=200.0, R=2.0e6, load_factor=1.3), mode=mode, pm=dict(point_masses=[600.0], engine_thrusts=[5.0e3], point_mass_locations=[[1.1, -2.3, -0.35]]))
            builders.tighten(p, nl="default", lin="default")  # the library's own solver objects, tolerance options only
            return p

        pts = [
            {"engine_thrusts": np.array([5.0e3]), "point_masses": np.array([600.0]), "fuel_mass": 1.0e4, "load_factor": 1.3},
            {"engine_thrusts": np.array([0.0]), "point_masses": np.array([0.0]), "fuel_mass": 0.0, "load_factor": 1.3},
            {"engine_thrusts": np.array([2.0e3]), "point_masses": np.array([900.0]), "fuel_mass": 5.0e3, "load_factor": 2.5},
        ]
        A = "AS_point_0."
        mdl = history.Model("AerostructPoint_pointmass_fuel", build, pts, [A + "CL", A + "fuelburn", A + "wing_perf.failure", A + "L_equals_W"], ["alpha", "load_factor", "engine_thrusts", "point_masses", "fuel_mass", "wing.twist_cp"], tol=1e-7, chk_tol=2e-2)
    else:
        model = "tube" if which == "as_tube" else "wingbox"

        def build(mode):
            m = gen.make_mesh("twdi", 2, 3, "left", fam, span=10.0, chord=1.6)
            kw = dict(struct_weight_relief=(model == "wingbox"), with_viscous=True, twist_cp=np.array([2.0, 3.0, 1.0]))
            kw["thickness_cp" if model == "tube" else "spar_thickness_cp"] = np.array([0.015, 0.02, 0.03]) if model == "tube" else np.array([0.004, 0.006, 0.008])
            if model == "wingbox":
                kw["skin_thickness_cp"] = np.array([0.008, 0.012, 0.016])
            s = builders.struct_surface("wing", m, True, model, **kw)
            p = builders.build_aerostruct([s], dict(Mach_number=0.5, W0=2.0e3, v=100.0, rho=0.9, alpha=4.0, speed_of_sound=200.0, R=2.0e6, load_factor=1.3), mode=mode)
            builders.tighten(p, nl="default", lin="default")  # the library's own solver objects, tolerance options only
            return p

        tk = "wing.thickness_cp" if model == "tube" else "wing.spar_thickness_cp"
        base = np.array([0.015, 0.02, 0.03]) if model == "tube" else np.array([0.004, 0.006, 0.008])
        pts = [
            {"alpha": 4.0, "v": 100.0, "load_factor": 1.3, "wing.twist_cp": np.array([2.0, 3.0, 1.0]), tk: base},
            # flight condition only (same geometry and structure as P0)
            {"alpha": 1.0, "v": 130.0, "load_factor": 2.5, "wing.twist_cp": np.array([2.0, 3.0, 1.0]), tk: base},
            {"alpha": 6.0, "v": 80.0, "load_factor": 1.0, "wing.twist_cp": np.array([3.0, 0.5, 2.0]), tk: base * 0.8},
        ]
        A = "AS_point_0."
        mdl = history.Model("AerostructPoint_" + model, build, pts, [A + "CL", A + "CD", A + "CM", A + "fuelburn", A + "wing_perf.failure", A + "L_equals_W", A + "total_perf.moment.M"], ["alpha", "v", "load_factor", "wing.twist_cp", tk], tol=1e-7, chk_tol=2e-2, has_chk=True)
    _MODELS[key] = mdl
    return mdl


def get_model(s):
    return comp_model(s["idx"], s["fam"]) if s["level"] == "comp" else group_model(s["which"], s["fam"])


def run_state(s):
    model = get_model(s)
    hist = [tuple(o) for o in s["hist"]]
    viol, dg, st, nprobe = history.check_invariants(model, s["mode"], hist)
    return dict(viol=viol, nontrivial=True, digest=dg, hdigest=dg, transitions=len(hist) + 3, validated=nprobe)


COMP_OPS = [["goto", 0], ["goto", 1], ["goto", 2], ["set", 1], ["set", 2], ["lin"], ["tot"], ["rerun"]]
BASE = [["goto", 0], ["tot"], ["goto", 1], ["tot"], ["goto", 2], ["tot"]]
DEV_OPS = [["lin"], ["tot"], ["rerun"], ["goto", 0], ["goto", 1], ["set", 0], ["set", 2]]


def deviations(k, ops):
    """all histories obtained from the optimiser pattern by inserting at most k operations"""
    out = {tuple(map(tuple, BASE))}
    cur = set(out)
    for _ in range(k):
        nxt = set()
        for h in cur:
            for pos in range(1, len(h) + 1):
                for op in ops:
                    nxt.add(h[:pos] + (tuple(op),) + h[pos:])
        out |= nxt
        cur = nxt
    return [list(map(list, h)) for h in sorted(out, key=lambda h: (len(h), h))]


_STATS = {}


def levels(tier, seed):
    fam = seed % 3
    depth = 3 if tier == "quick" else 5
    shallow = 2 if tier == "quick" else 3  # for the components beyond the hand-picked stateful ones
    ops = list(COMP_OPS) + ([["chk"]] if tier == "thorough" else [])
    seen = set()
    frontier = []
    first = []
    for idx in range(len(COMP_MODELS)):
        # hand-picked stateful components: both modes; the rest of the registry: one mode each (alternating) in the quick tier
        for mode in ("fwd", "rev") if (idx < DEEP or tier == "thorough") else (("fwd", "rev")[idx % 2],):
            first.append(dict(level="comp", idx=idx, comp=COMP_MODELS[idx][0], mode=mode, fam=fam, hist=[["goto", 0]], maxd=depth if idx < DEEP else shallow))
    # group level: complete enumeration within the deviation bound (no pruning needed)
    kd = {"aero": 2 if tier == "quick" else 3, "aero_rot": 1 if tier == "quick" else 2, "aero_beta": 1 if tier == "quick" else 2, "aero_comprot": 1 if tier == "quick" else 2, "struct_tube": 1 if tier == "quick" else 2, "struct_wingbox": 1 if tier == "quick" else 2, "as_tube": 1 if tier == "quick" else 2, "as_wingbox": 1 if tier == "quick" else 2, "as_pm": 1 if tier == "quick" else 2}
    gops = list(DEV_OPS) + ([["chk"]] if tier == "thorough" else [])
    group_states = []
    for which, k in kd.items():
        for mode in ("fwd", "rev"):
            hs = deviations(k, gops if group_model(which, fam).has_chk else list(DEV_OPS))
            if not group_model(which, fam).has_chk:
                pass
            elif tier == "thorough":
                hs = [h for h in hs if sum(1 for o in h if o[0] == "chk") <= 1]
            else:
                # one history with check_partials per model and mode keeps the operation in the quick alphabet
                hs = hs + [BASE[:2] + [["chk"]] + BASE[2:4]]
            for h in hs:
                group_states.append(dict(level="group", which=which, mode=mode, fam=fam, hist=h))
    # "only one thing changed": for every model and every input, linearise at P0, then move ONLY that input to its P1 value
    # and linearise again (a cache keyed on a subset of the inputs survives exactly such a transition)
    single = []
    for idx in range(len(COMP_MODELS)):
        name, cfg = COMP_MODELS[idx]
        mdl = comp_model(idx, fam)
        for nm in mdl.wrt:
            if np.array_equal(mdl.points[0][nm], mdl.points[1][nm]):
                continue
            mode = ("fwd", "rev")[(idx + len(single)) % 2]
            single.append(dict(level="comp", idx=idx, comp=name, mode=mode, fam=fam, maxd=0, hist=[["goto", 0], ["tot"], ["gotom", 0, 1, nm], ["tot"]]))
    # prob.setup() called again on the live Problem (component instances added directly by the user are set up a second and a
    # third time): afterwards every point must evaluate as on a fresh problem
    for idx in range(len(COMP_MODELS)):
        name, cfg = COMP_MODELS[idx]
        mode = ("fwd", "rev")[idx % 2]
        single.append(dict(level="comp", idx=idx, comp=name, mode=mode, fam=fam, maxd=0, hist=[["goto", 0], ["tot"], ["resetup"], ["goto", 1], ["tot"]]))
        single.append(dict(level="comp", idx=idx, comp=name, mode=("fwd", "rev")[(idx + 1) % 2], fam=fam, maxd=0, hist=[["goto", 1], ["resetup"], ["resetup"], ["goto", 0], ["tot"]]))
    # ... and transitions in which ONE array input changes while the summaries a cache might be keyed on stay the same (two entries
    # exchanged: same sum / norm / extrema; off-diagonal part of a square matrix only: same diagonal; interior only: same end values)
    for idx in range(len(COMP_MODELS)):
        name, cfg = COMP_MODELS[idx]
        mdl = comp_model(idx, fam)
        for nm in mdl.wrt:
            for kind in ("swap", "offdiag", "interior"):
                if history.variant(mdl.points[0][nm], kind) is None:
                    continue
                mode = ("fwd", "rev")[(idx + len(single)) % 2]
                single.append(dict(level="comp", idx=idx, comp=name, mode=mode, fam=fam, maxd=0, hist=[["goto", 0], ["tot"], ["gotov", 0, nm, kind], ["tot"]]))
    for which in kd:
        mdl = group_model(which, fam)
        for nm in sorted(mdl.points[0]):
            if history.variant(np.asarray(mdl.points[0][nm], dtype=float), "swap") is not None:
                single.append(dict(level="group", which=which, mode=("fwd", "rev")[len(single) % 2], fam=fam, hist=[["goto", 0], ["tot"], ["gotov", 0, nm, "swap"], ["tot"]]))
    for which in kd:
        mdl = group_model(which, fam)
        names = sorted(set(k for pt in mdl.points for k in pt))
        for nm in names:
            for other in (1, 2):
                if nm not in mdl.points[0] or nm not in mdl.points[other] or np.array_equal(np.asarray(mdl.points[0][nm]), np.asarray(mdl.points[other][nm])):
                    continue
                for mode in ("fwd", "rev"):
                    single.append(dict(level="group", which=which, mode=mode, fam=fam, hist=[["goto", 0], ["tot"], ["gotom", 0, other, nm], ["tot"]]))
    res = yield first + group_states + single
    closed = 0
    for s, r in zip(first, res[: len(first)]):
        key = (s["idx"], s["mode"], r["hdigest"])
        seen.add(key)
        frontier.append(s)
    d = 0
    pruned = 0
    while frontier and d < depth:
        batch = []
        for s in frontier:
            if len(s["hist"]) - 1 >= s["maxd"]:
                continue
            for op in ops:
                batch.append(dict(s, hist=s["hist"] + [op]))
        if not batch:
            break
        res = yield batch
        frontier = []
        for s, r in zip(batch, res):
            key = (s["idx"], s["mode"], r["hdigest"])
            if key in seen:
                pruned += 1
                continue
            seen.add(key)
            frontier.append(s)
        d += 1
    _STATS.update(depth_reached=d, closed=not frontier, distinct_digests=len(seen), pruned=pruned, frontier_left=len(frontier))
    return 0


def coverage_extra(states, results):
    d = dict(_STATS)
    d["bound_kind"] = "depth (component level, digest-pruned BFS) / deviations from the optimiser pattern (group level)"
    d["group_histories"] = sum(1 for s in states if s["level"] == "group")
    d["component_histories"] = sum(1 for s in states if s["level"] == "comp")
    d["max_history_length"] = max(len(s["hist"]) for s in states)
    return d
