"""C13 - geometry design variables act as documented; defaults leave the mesh unchanged."""
import itertools

import numpy as np
import openmdao.api as om

from oasmc import builders, gen
from oasmc.engine import digest_arrays

ID = "C13"
RULE = (
    "complete product input mesh family x side x nx x ny x ref_axis_pos x variable alphabet (none; each variable alone at default,+v,-v; all "
    "order-independent pairs; control-point counts with equal values; dihedral +-60 deg with twist of both signs: magnitude AND sense of the section rotation; multi-section and unified-spline parts); oracle = closed-form effect of each variable (oasmc ref_geom, "
    "inline) on the real Geometry group; non-trivial = output mesh differs from input (or the state is a default/no-op state)"
)
ASSUMPTIONS = ["finite alphabets for values; nx<=4, ny<=7 in the complete product, production-size meshes 7x12 / 9x21 / 5x26 with the end value of every variable", "left-half and full-span meshes (right halves are C07's subject)", "OpenMDAO/NumPy trusted"]
BOUND = {"quick": "nx<=3 (+ one planform with nx=4), half ny 3-4 / full 5 exhaustively + production-size meshes 7x12, 9x21, 5x26", "thorough": "nx<=4, ny<=7, more values"}
TOL = 1e-11

SINGLE = {
    "sweep": [0.0, 20.0, -10.0],
    "dihedral": [0.0, 7.0, -5.0],
    "taper": [1.0, 0.6, 1.3],
    "span": ["same", 1.25, 0.7],  # multiples of the current span
    "twist": [0.0, 4.0, -3.0],
    "chord": [1.0, 1.3, 0.6],
    "xshear": [0.0, 0.3, -0.2],
    "yshear": [0.0, 0.05, -0.04],
    "zshear": [0.0, 0.2, -0.3],
}
# pairs whose effects commute mathematically (so the documented single effects determine the result)
SCALE = ["taper", "chord", "twist"]
SHIFT = ["sweep", "dihedral", "xshear", "yshear", "zshear"]
PAIRS = [(a, b) for a in SCALE for b in SHIFT] + list(itertools.combinations(["xshear", "yshear", "zshear"], 2)) + [("sweep", "dihedral"), ("taper", "chord"), ("twist", "taper"), ("twist", "chord"), ("span", "taper"), ("span", "chord"), ("span", "twist")]


def states(tier, seed):
    fam = seed % 3
    st = []
    pfs = ["rect", "swept", "twdi", "camber", "camberflat"] + (["crm"] if tier == "thorough" else [])
    nxs = [2, 3] if tier == "quick" else [2, 3, 4]
    sides = [("left", 3), ("left", 4), ("full", 5)] + ([("left", 2), ("full", 7), ("full", 3)] if tier == "thorough" else [])
    raps = [0.25, 0.0, 0.5, 1.0]
    geo = list(itertools.product(pfs, nxs, sides, raps))
    if tier == "quick":
        # nx = 4 is the smallest mesh with an interior chordwise row
        geo += list(itertools.product(["camber"], [4], [("left", 3), ("full", 5)], [0.25, 0.6]))
    for pf, nx, (side, ny), rap in geo:
        if pf.startswith("camber") and nx < 3:
            continue
        base = dict(pf=pf, nx=nx, ny=ny, side=side, rap=rap, fam=fam)
        st.append(dict(base, part="vars", dvs={}))
        for dv, vals in SINGLE.items():
            for k, v in enumerate(vals):
                for kind in (["const", "vary"] if dv in ("twist", "chord", "xshear", "yshear", "zshear") and k > 0 else ["const"]):
                    st.append(dict(base, part="vars", dvs={dv: [v, kind]}))
        if rap in (0.25, 1.0) or tier == "thorough":
            for a, b in PAIRS:
                st.append(dict(base, part="vars", dvs={a: [SINGLE[a][1], "const"], b: [SINGLE[b][2], "const"]}))
    # production-size meshes (index arithmetic of every geometry variable beyond nx = 4, ny = 7)
    for (pf, nx, (side, ny)), rap in itertools.product([("twdi", 7, ("left", 12)), ("camber", 9, ("full", 21)), ("swept", 5, ("left", 26))], [0.25, 1.0]):
        base = dict(pf=pf, nx=nx, ny=ny, side=side, rap=rap, fam=fam)
        st.append(dict(base, part="vars", dvs={}))
        for dv, vals in SINGLE.items():
            st.append(dict(base, part="vars", dvs={dv: [vals[-1], "vary" if dv in ("twist", "chord", "xshear", "yshear", "zshear") else "const"]}))
        for a, b in PAIRS:
            st.append(dict(base, part="vars", dvs={a: [SINGLE[a][1], "const"], b: [SINGLE[b][2], "const"]}))
    for ncp, (side, ny), what in itertools.product([4, 9], [("left", 26), ("full", 41)], ["twist_cp", "chord_cp", "thickness_cp"]):
        st.append(dict(part="spline", ncp=ncp, side=side, ny=ny, what=what, fam=fam))
    # steep dihedral / anhedral (V-tail, winglet-like: reference-axis segments steeper than 45 deg, both slopes) with twist of both signs
    for pf, (side, ny), dih, tw, kind in itertools.product(["rect", "swept"], [("left", 3), ("full", 5)], [60.0, -60.0], [4.0, -3.0], ["const", "vary"]):
        st.append(dict(pf=pf, nx=2, ny=ny, side=side, rap=0.25, fam=fam, part="vars", dvs={"dihedral": [dih, "const"], "twist": [tw, kind]}))
        st.append(dict(pf=pf, nx=3, ny=ny, side=side, rap=0.6, fam=fam, part="vars", dvs={"dihedral": [dih, "const"]}))
    for nsec, nx, rap, dv in itertools.product([1, 2, 3], [2, 3], [0.25, 0.0, 0.6, 1.0], ["none", "both_default", "twist", "chord"]):
        st.append(dict(part="multisec", nsec=nsec, nx=nx, rap=rap, dv=dv, fam=fam))
    # unified B-spline control points of a multi-section surface (build_multi_spline / connect_multi_spline): every count
    # combination of 2-4 control points on 2 and 3 sections
    for nsec in (2, 3):
        for counts in itertools.product([2, 3, 4], repeat=nsec):
            for what in ("chord_cp", "twist_cp"):
                st.append(dict(part="unispline", counts=list(counts), what=what, fam=fam))
    for ncp, (side, ny), what in itertools.product([1, 2, 3, 5], [("left", 3), ("left", 4), ("full", 5), ("full", 7)], ["twist_cp", "chord_cp", "t_over_c_cp", "xshear_cp", "zshear_cp", "thickness_cp", "radius_cp"]):
        st.append(dict(part="spline", ncp=ncp, side=side, ny=ny, what=what, fam=fam))
    return st, 0


def base_mesh(s):
    pf = s["pf"]
    if pf == "camberflat":
        # cambered, swept, but NO dihedral: isolates the camber from the dihedral-following twist hinge
        m = gen.make_mesh("swept", s["nx"], s["ny"], s["side"], s["fam"])
        xi = np.linspace(0, 1, s["nx"])[:, None]
        m[:, :, 2] += 0.06 * 4 * xi * (1 - xi) * (m[-1, :, 0] - m[0, :, 0])[None, :]
        return m
    return gen.make_mesh(pf, s["nx"], s["ny"], s["side"], s["fam"])


# ------------------------------------------------------------------ closed forms (ref_geom)
def ref_axis(m, rap):
    return rap * m[-1] + (1 - rap) * m[0]


def root_index(side, ny):
    return ny - 1 if side == "left" else (ny - 1) // 2


def span_dist(m, side):
    """|y - y_root| of each section, measured on the leading edge (y is constant along the chord in the input families)"""
    y = m[0, :, 1]
    return np.abs(y - y[root_index(side, m.shape[1])])


def dist_values(dv, v, kind, ny, side):
    """spanwise distribution for array-type variables: constant or a smooth mirror-symmetric variation"""
    if kind == "const":
        return np.full(ny, v)
    eta = np.linspace(0, 1, ny) if side == "left" else np.abs(np.linspace(-1, 1, ny))
    if side == "left":
        eta = 1 - eta  # 0 at root (last node)
    base = 1.0 if dv == "chord" else 0.0
    return base + (v - base) * (0.4 + 0.6 * eta**2)


def expected(m0, s, dvals):
    """closed-form result of the documented effects, applied in an order in which the chosen pairs commute"""
    m = m0.copy()
    side, rap = s["side"], s["rap"]
    ny = m.shape[1]
    d = span_dist(m0, side)
    half = d.max()
    if "taper" in dvals:
        f = 1 + (dvals["taper"] - 1) * d / half
        r = ref_axis(m, rap)
        m = r + (m - r) * f[None, :, None]
    if "chord" in dvals:
        r = ref_axis(m, rap)
        m = r + (m - r) * dvals["chord"][None, :, None]
    if "span" in dvals:
        r = ref_axis(m, rap)
        cur = r[-1, 1] - r[0, 1]
        want = dvals["span"] / (2.0 if side == "left" else 1.0)
        m[:, :, 1] = (r[:, 1] / cur * want)[None, :]
    if "sweep" in dvals:
        m[:, :, 0] += (d * np.tan(np.radians(dvals["sweep"])))[None, :]
    if "dihedral" in dvals:
        m[:, :, 2] += (d * np.tan(np.radians(dvals["dihedral"])))[None, :]
    for k, nm in enumerate(("xshear", "yshear", "zshear")):
        if nm in dvals:
            m[:, :, k] += dvals[nm][None, :]
    if "twist" in dvals:
        r = ref_axis(m, rap)
        th = np.radians(dvals["twist"])
        dx = m[:, :, 0] - r[:, 0]
        dz = m[:, :, 2] - r[:, 2]
        m = m.copy()
        m[:, :, 0] = r[:, 0] + np.cos(th) * dx + np.sin(th) * dz
        m[:, :, 2] = r[:, 2] - np.sin(th) * dx + np.cos(th) * dz
    return m


def run_state(s):
    return globals()["part_" + s["part"]](s)


def part_unispline(s):
    """documented layout: the unified vector is laid out section after section with ONE shared control point at every junction
    ('each edge control point controls the edge control points of each section's B-spline')"""
    from openaerostruct.geometry.geometry_group import MultiSecGeometry, build_sections
    from openaerostruct.geometry.multi_unified_bspline_utils import build_multi_spline, connect_multi_spline

    counts, what = s["counts"], s["what"]
    n = len(counts)
    base = 1.0 if what == "chord_cp" else 0.0
    cps = [np.full(c, base) for c in counts]
    surf = {"name": "surface", "is_multi_section": True, "num_sections": n, "sec_name": ["sec%d" % i for i in range(n)], "symmetry": True, "S_ref_type": "wetted", "root_section": n - 1, "taper": [1.0] * n, "span": [1.0] * n, "sweep": [0.0] * n, "root_chord": 1.0, "meshes": "gen-meshes", "nx": 2, "ny": [5] * n, "CL0": 0.0, "CD0": 0.015, "k_lam": 0.05, "c_max_t": 0.303, "with_viscous": False, "with_wave": False, "groundplane": False}
    surf["chord_cp"] = [np.ones(c) for c in counts] if what == "chord_cp" else [np.ones(2) for _ in counts]
    surf["twist_cp"] = [np.zeros(c) for c in counts] if what == "twist_cp" else [np.zeros(2) for _ in counts]
    p = om.Problem(reports=False)
    secs = build_sections(surf)
    p.model.add_subsystem("uni", build_multi_spline(what, n, cps))
    connect_multi_spline(p, secs, cps, what, "uni", "surface")
    p.model.add_subsystem("surface", MultiSecGeometry(surface=surf))
    p.setup()
    nu = p.get_val("uni.%s_spline" % what).size
    viol, val = [], 1
    want_n = sum(counts) - (n - 1)
    if nu != want_n:
        viol.append(dict(sig=dict(oracle="unified_vector_size", what=what), msg="unified %s vector has %d entries for control-point counts %s (one shared point per junction: %d)" % (what, nu, counts, want_n), measure=1.0))
        return dict(viol=viol, nontrivial=True, digest="size", transitions=1, validated=val)
    u = base + 0.1 * (1 + np.arange(nu)) + 0.013 * s["fam"]
    p.set_val("uni.%s_spline" % what, u)
    p.run_model()
    got = [np.array(p.get_val("surface.sec%d.%s" % (i, what))).ravel() for i in range(n)]
    joined = np.concatenate([g if i == 0 else g[1:] for i, g in enumerate(got)])
    val += 1
    if joined.shape != u.shape or not np.array_equal(joined, u):
        viol.append(dict(sig=dict(oracle="unified_layout", what=what), msg="counts %s: the sections receive %s, the unified vector is %s" % (counts, [np.round(g, 3).tolist() for g in got], np.round(u, 3).tolist()), measure=1.0))
    for i in range(n - 1):
        val += 1
        if got[i][-1] != got[i + 1][0]:
            viol.append(dict(sig=dict(oracle="junction_shares_control_point", what=what), msg="counts %s: junction %d|%d has control points %.4f and %.4f" % (counts, i, i + 1, got[i][-1], got[i + 1][0]), measure=1.0))
    return dict(viol=viol, nontrivial=True, digest=digest_arrays(*got), transitions=1, validated=val)


def part_multisec(s):
    """the documented variables on a MULTI-SECTION surface: every section must show the single-surface closed-form effect about
    the surface's reference axis (ref_axis_pos), defaults are a no-op"""
    from openaerostruct.geometry.geometry_group import MultiSecGeometry

    n, rap, fam = s["nsec"], s["rap"], s["fam"]
    nx = s["nx"]
    meshes = []
    for i in range(n):
        m = np.zeros((nx, 3, 3))
        ch = 1.0 + 0.15 * i + 0.01 * fam
        y = np.linspace(-(n - i) * 1.25, -(n - i - 1) * 1.25, 3)
        le = 0.2 * (n - i) + 0.1 * np.abs(y - y[-1])  # swept leading edge, continuous across the junctions
        m[:, :, 0] = le[None, :] + np.linspace(0.0, 1.0, nx)[:, None] * ch
        m[:, :, 1] = y[None, :]
        meshes.append(m)
    surf = {"name": "surface", "is_multi_section": True, "num_sections": n, "sec_name": ["sec%d" % i for i in range(n)], "symmetry": True, "S_ref_type": "wetted", "meshes": [m.copy() for m in meshes], "ref_axis_pos": rap, "CL0": 0.0, "CD0": 0.015, "k_lam": 0.05, "c_max_t": 0.303, "t_over_c_cp": np.array([0.12]), "with_viscous": False, "with_wave": False}
    dv, vals = s["dv"], None
    if dv == "twist":
        vals = [3.0 - 1.5 * i for i in range(n)]
        surf["twist_cp"] = [np.array([v, v]) for v in vals]
    elif dv == "chord":
        vals = [1.3 - 0.2 * i for i in range(n)]
        surf["chord_cp"] = [np.array([v, v]) for v in vals]
    elif dv == "both_default":
        surf["twist_cp"] = [np.zeros(2) for _ in range(n)]
        surf["chord_cp"] = [np.ones(2) for _ in range(n)]
    p = om.Problem(reports=False)
    p.model.add_subsystem("surface", MultiSecGeometry(surface=surf))
    p.setup()
    p.run_model()
    viol, val, moved = [], 0, 0.0
    for i in range(n):
        out = np.array(p.get_val("surface.sec%d.mesh.rotate.mesh" % i))
        d = {} if vals is None else {dv: np.full(3, vals[i])}
        want = expected(meshes[i], dict(side="left", rap=rap), d)
        sc = np.abs(meshes[i]).max()
        val += 2
        e = np.abs(ref_axis(out, rap) - ref_axis(want, rap)).max() / sc
        if not e <= TOL:
            viol.append(dict(sig=dict(oracle="reference_axis", multisection=True, dv=dv), msg="section %d of %d, ref_axis_pos %g: the reference-axis line moves by %.2e under %s" % (i, n, rap, e, dv), measure=float(e)))
        e = np.abs(out - want).max() / sc
        if not e <= TOL:
            viol.append(dict(sig=dict(oracle="documented_effect" if vals is not None else "defaults_are_noop", multisection=True, dv=dv), msg="section %d of %d, ref_axis_pos %g: mesh after %s differs from the closed-form result by %.2e" % (i, n, rap, dv, e), measure=float(e)))
        moved = max(moved, np.abs(out - meshes[i]).max())
    return dict(viol=viol, nontrivial=bool(moved > 1e-12 or vals is None), digest=digest_arrays(out), transitions=1, validated=val)


def part_vars(s):
    from openaerostruct.geometry.geometry_mesh import GeometryMesh

    m0 = base_mesh(s)
    ny = s["ny"]
    side = s["side"]
    sym = side != "full"
    surf = builders.aero_surface("w", m0, sym, ref_axis_pos=s["rap"])
    r0 = ref_axis(m0, s["rap"])
    cur_span = (r0[-1, 1] - r0[0, 1]) * (2.0 if sym else 1.0)
    dvals = {}
    ivc = om.IndepVarComp()
    for dv, (v, kind) in s["dvs"].items():
        if dv in ("sweep", "dihedral", "taper"):
            dvals[dv] = float(v)
            surf[dv] = float(v)
            ivc.add_output(dv, val=float(v))
        elif dv == "span":
            val = cur_span if v == "same" else cur_span * v
            dvals[dv] = val
            surf["span"] = val
            ivc.add_output("span", val=val)
        else:
            arr = dist_values(dv, v, kind, ny, side)
            dvals[dv] = arr
            surf[dv + "_cp"] = arr.copy()  # presence of the key activates the variable; distribution fed directly
            ivc.add_output(dv, val=arr)
    # GeometryMesh is the mesh-manipulation core of the Geometry group; array variables are fed as spanwise
    # distributions (the B-splines are exercised in part 'spline')
    p = om.Problem(reports=False)
    if s["dvs"]:
        p.model.add_subsystem("ivc", ivc, promotes=["*"])
    p.model.add_subsystem("g", GeometryMesh(surface=surf), promotes=["*"])
    p.setup()
    p.run_model()
    out = p["mesh"].copy()
    want = expected(m0, s, dvals)
    viol, val = [], 0
    sc = np.abs(m0).max()
    zslope = bool(np.abs(np.diff(ref_axis(want, s["rap"])[:, 2])).max() > 1e-12)
    is_default = all((v in (0.0, 1.0, "same")) for v, _ in s["dvs"].values())
    flat = not bool(np.abs((m0 - r0)[:, :, 2]).max() > 1e-12)  # sections have no z-extent relative to the axis
    names = "+".join(sorted(s["dvs"])) or "none"
    wh = dict(dv=names, default=bool(is_default))

    def bad(oracle, msg, e, **kw):
        viol.append(dict(sig=dict(oracle=oracle, **wh, **kw), msg=msg, measure=float(e)))

    # invariants that no admissible hinge-line convention can change: reference axis and chord lengths
    val += 2
    e = np.abs(ref_axis(out, s["rap"]) - ref_axis(want, s["rap"])).max() / sc
    if not e <= TOL:
        bad("reference_axis", "reference-axis line after %s differs from its documented position by %.2e" % (names, e), e)
    ch = lambda m: np.linalg.norm(m[1:] - m[:-1], axis=2)  # noqa: E731
    e = np.abs(ch(out) - ch(want)).max() / sc
    if not e <= TOL:
        bad("chord_lengths", "panel chord lengths after %s differ from the documented ones by %.2e" % (names, e), e)
    val += 1
    e = np.abs(out - want).max() / sc
    if not e <= TOL:
        # twist about a reference axis with z-slope is, by documented design, taken about the dihedral-following hinge:
        # there only the invariants above (and the no-op at zero twist) are demanded
        if zslope and "twist" in dvals and np.abs(dvals["twist"]).max() > 0:
            pass
        else:
            bad("documented_effect" if not is_default else "defaults_are_noop", "mesh after %s differs from the closed-form result by %.2e of the mesh size" % (names, e), e, zslope=zslope, flat_sections=flat, rotate_x_class=bool(zslope and not flat))
    if zslope and "twist" in dvals and np.abs(dvals["twist"]).max() > 0:
        # rotation angle about the local hinge equals the twist: angle between each section's chord vector before/after
        val += 1
        notw = expected(m0, s, {k: v for k, v in dvals.items() if k != "twist"})
        c0 = (notw[-1] - notw[0])
        c1 = (out[-1] - out[0])
        cosang = np.einsum("jk,jk->j", c0, c1) / (np.linalg.norm(c0, axis=1) * np.linalg.norm(c1, axis=1))
        ang = np.degrees(np.arccos(np.clip(cosang, -1, 1)))
        e = np.abs(ang - np.abs(dvals["twist"])).max()
        if not e <= 1e-6 and flat:
            bad("twist_angle", "section rotation angle differs from the twist value by %.2e deg" % e, e)
        # ... and its sense: positive twist is nose-up about the local spanwise direction of the reference axis (oriented towards
        # increasing y): (chord before) x (chord after) points along it
        ra = ref_axis(notw, s["rap"])
        tang = np.gradient(ra, axis=0)
        sense = np.einsum("jk,jk->j", np.cross(c0, c1), tang)
        tw_ = np.broadcast_to(np.asarray(dvals["twist"], dtype=float), sense.shape)
        val += 1
        wrong = (np.abs(tw_) > 1e-9) & (np.sign(sense) != np.sign(tw_))
        if flat and np.any(wrong) and np.all(tang[:, 1] > 0):
            bad("twist_sense", "section %d is twisted in the wrong sense (twist %+g deg, nose-%s about the local reference axis)" % (int(np.argmax(wrong)), tw_[int(np.argmax(wrong))], "down" if tw_[int(np.argmax(wrong))] > 0 else "up"), 1.0)
    moved = np.abs(out - m0).max()
    return dict(viol=viol, nontrivial=bool(moved > 1e-12 or is_default), digest=digest_arrays(out), transitions=1, validated=val)


def part_spline(s):
    from openaerostruct.geometry.geometry_group import Geometry

    ny, ncp, what = s["ny"], s["ncp"], s["what"]
    sym = s["side"] != "full"
    m = gen.make_mesh("swept", 2, ny, s["side"], s["fam"])
    val0 = {"twist_cp": 2.5, "chord_cp": 1.2, "t_over_c_cp": 0.14, "xshear_cp": 0.3, "zshear_cp": -0.2, "thickness_cp": 0.017, "radius_cp": 0.21}[what]
    cp = np.full(ncp, val0)
    viol = []
    if what in ("thickness_cp", "radius_cp"):
        from openaerostruct.structures.tube_group import TubeGroup

        surf = builders.struct_surface("w", m, sym, "tube")
        surf[what] = cp
        if what == "radius_cp":
            surf["thickness_cp"] = np.full(ncp, 0.017)
        p = om.Problem(reports=False)
        p.model.add_subsystem("t", TubeGroup(surface=surf), promotes=["*"])
        p.setup()
        if what == "thickness_cp":
            p.set_val("mesh", m)
            p.set_val("t_over_c", np.full(ny - 1, 0.12))
        p.run_model()
        out = np.asarray(p[what[:-3]]).ravel()
        n_expected = ny - 1
    else:
        surf = builders.aero_surface("w", m, sym)
        surf["t_over_c_cp"] = np.full(ncp if what == "t_over_c_cp" else 1, 0.14)
        if what != "t_over_c_cp":
            surf[what] = cp
        p = om.Problem(reports=False)
        p.model.add_subsystem("g", Geometry(surface=surf), promotes=["*"])
        p.setup()
        p.run_model()
        out = np.asarray(p[what[:-3]]).ravel()
        n_expected = ny - 1 if what == "t_over_c_cp" else ny
    e = np.abs(out - val0).max() / abs(val0)
    if out.shape != (n_expected,) or not e <= 1e-12:
        viol.append(dict(sig=dict(oracle="equal_cp_constant", what=what, ncp=ncp), msg="%d equal control points %.4g give distribution %s" % (ncp, val0, np.array2string(out, precision=8)), measure=float(e)))
    return dict(viol=viol, nontrivial=True, digest=digest_arrays(out, np.array([ncp, ny])), transitions=1, validated=1)
