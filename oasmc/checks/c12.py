"""C12 - the coupled aerostructural state is a consistent, path-independent fixed point."""
import itertools

import numpy as np
import openmdao.api as om

from oasmc import builders, gen
from oasmc.engine import digest_arrays

ID = "C12"
ENGINE = "H"
TECHNIQUE = "complete enumeration of solver assignments x initial guesses x all visiting orders of the design points (histories on one live Problem) on the real coupled model; fixed-point residual recomputed with separately built real components"
RULE = (
    "complete product aerostructural configuration x nonlinear solver x linear solver x initial guess x ALL orders of visiting three design "
    "points (part path); fixed-point residual of the converged state recomputed by the harness with separately built real discipline "
    "components (part fixed); every point of 2- and 3-point models (both point orders) compared with the single-point model of its condition, and every flight input of every other point perturbed in both directions (part multi); "
    "stiffness ladder (part stiff); non-trivial = distinct converged states with non-zero displacement"
)
ASSUMPTIONS = ["finite alphabets (configurations, three design points, solver menu)", "convergent couplings only (err_on_non_converge=True; a non-convergent cell is inadmissible, counted)", "solvers tightened to atol 1e-8 / rtol 1e-13 (user-level setting); comparison at 1e-7", "OpenMDAO/NumPy/SciPy trusted"]
BOUND = {"quick": "2 configurations x 8 solver cells x 2-3 guesses x 6 orders + point-mass / right-half / rotational / wing+tail configurations x 6 orders; 2-/3-point models in both point orders vs single-point models", "thorough": "10 configurations (incl. point mass, right half nx=3, rotational, wing + tail with weight relief)"}
TOL = 1e-7

CONFIGS = {
    "tube_sym": dict(model="tube", sym=True, relief=False),
    "wingbox_sym_relief": dict(model="wingbox", sym=True, relief=True),
    "tube_full_relief": dict(model="tube", sym=False, relief=True),
    "wingbox_full": dict(model="wingbox", sym=False, relief=False),
    "tube_sym_relief": dict(model="tube", sym=True, relief=True),
    "wingbox_sym": dict(model="wingbox", sym=True, relief=False),
    # point mass + engine thrust + weight relief (the inertial loads scale with the load factor of each flight point)
    "tube_sym_pm": dict(model="tube", sym=True, relief=True, pm=True),
    # right-half symmetric mesh (root node first) with an interior chordwise row of mesh nodes
    "tube_right_nx3": dict(model="tube", sym=True, relief=True, side="right", nx=3),
    # rotation rates about a user-given centre (AerostructPoint(rotational=True))
    "tube_full_rot": dict(model="tube", sym=False, relief=True, rot=True),
    # wing + tail of the same spanwise size in one flight point, both with weight relief; the design points change the wing only
    "tube_two_relief": dict(model="tube", sym=True, relief=True, two=True),
}


def rot_kw(cfg, flow):
    """extra builder arguments for rotational configurations"""
    if not CONFIGS[cfg].get("rot"):
        return flow, {}
    fl = dict(flow)
    fl.update(omega=[0.05, 0.06, -0.04], cg=[1.2, 0.3, 0.1])
    return fl, dict(rotational=True)


def pm_of(cfg):
    if not CONFIGS[cfg].get("pm"):
        return None
    return dict(point_masses=[600.0], engine_thrusts=[5.0e3], point_mass_locations=[[1.1, -2.3, -0.35]])
CELLS = [("aitken", "direct"), ("nlbgs", "direct"), ("newton", "direct"), ("newton", "lbgs"), ("newton", "krylov_plain"), ("aitken_f07", "direct"), ("nlbgs_apply", "direct"), ("default", "default")]  # last: the library's own solver objects
POINTS = [
    {"alpha": 4.0, "v": 100.0, "load_factor": 1.3, "wing.twist_cp": [2.0, 3.0, 1.0], "wing.taper": 1.0},
    # P1 differs from P0 in the flight condition ONLY (same geometry and structure): a value cached on the structure alone
    # would survive the transition P0 -> P1
    {"alpha": 1.0, "v": 130.0, "load_factor": 2.5, "wing.twist_cp": [2.0, 3.0, 1.0], "wing.taper": 1.0},
    {"alpha": 6.0, "v": 80.0, "load_factor": 1.0, "wing.twist_cp": [3.0, 0.5, 2.0], "wing.taper": 0.7},
]


def states(tier, seed):
    fam = seed % 3
    st = []
    cfgs = ["tube_sym", "wingbox_sym_relief"] if tier == "quick" else list(CONFIGS)
    # initial guesses: the state left by the previous point; ten times the displacement state; the WHOLE state vector of the
    # coupled group (every output, as a restart from a stored case would set it) scaled by 0.8
    for c, (nl, lin), guess, order in itertools.product(cfgs, CELLS, ["default", "scaled", "allstate"], list(itertools.permutations(range(3)))):
        if guess == "allstate" and tier == "quick" and (lin != "direct" or c != cfgs[0]):
            continue
        st.append(dict(part="path", cfg=c, nl=nl, lin=lin, guess=guess, order=list(order), fam=fam))
    # parts fixed / stiff rebuild the discipline chain (resp. the rigid limit) inside the harness without point masses or rotation
    plain = [c for c in CONFIGS if not CONFIGS[c].get("pm") and not CONFIGS[c].get("rot") and not CONFIGS[c].get("two")]
    for c in cfgs if tier == "quick" else plain:
        for k in range(3):
            st.append(dict(part="fixed", cfg=c, k=k, fam=fam))
    for c, npts, rev in itertools.product((cfgs[:1] if tier == "quick" else cfgs[:3]) + ["tube_sym_pm"], [2, 3], [False, True]):
        st.append(dict(part="multi", cfg=c, npts=npts, rev=rev, fam=fam))
    for order in itertools.permutations(range(3)):
        st.append(dict(part="path", cfg="tube_sym_pm", nl="nlbgs", lin="direct", guess="default", order=list(order), fam=fam))
        st.append(dict(part="path", cfg="tube_right_nx3", nl="newton", lin="lbgs", guess="default", order=list(order), fam=fam))
        st.append(dict(part="path", cfg="tube_full_rot", nl="default", lin="default", guess="default", order=list(order), fam=fam))
        st.append(dict(part="path", cfg="tube_two_relief", nl="default", lin="default", guess="default", order=list(order), fam=fam))
    for k in range(3):
        st.append(dict(part="fixed", cfg="tube_right_nx3", k=k, fam=fam))
    st.append(dict(part="multi", cfg="tube_right_nx3", npts=2, rev=False, fam=fam))
    for c in cfgs:
        if c in plain:
            st.append(dict(part="stiff", cfg=c, fam=fam))
    return st, 0


def surface(cfg, fam, E_scale=1.0):
    c = CONFIGS[cfg]
    ny = 3 if c["sym"] else 5
    m = gen.make_mesh("twdi", c.get("nx", 2), ny, c.get("side", "left") if c["sym"] else "full", fam, asym=not c["sym"], span=10.0, chord=1.6)
    kw = dict(struct_weight_relief=c["relief"], with_viscous=True, twist_cp=np.array([2.0, 3.0, 1.0]), taper=1.0)
    if c.get("pm"):
        kw["n_point_masses"] = 1
    s = builders.struct_surface("wing", m, c["sym"], c["model"], **kw)
    s["E"] *= E_scale
    s["G"] *= E_scale
    return s


def surfaces(cfg, fam):
    out = [surface(cfg, fam)]
    if CONFIGS[cfg].get("two"):
        m = gen.make_mesh("swept", 2, 3, "left", fam, span=5.0, chord=1.0, offset=[6.0, 0.0, 0.8])
        out.append(builders.struct_surface("tail", m, True, "tube", struct_weight_relief=True, with_viscous=True, thickness_cp=np.array([0.012, 0.015])))
    return out


FLOW = dict(Mach_number=0.5, W0=2.0e3, v=100.0, rho=0.9, alpha=4.0, speed_of_sound=200.0, R=2.0e6, load_factor=1.3)
OBS = ["CL", "CD", "CM", "fuelburn", "L_equals_W", "wing_perf.failure", "wing_perf.vonmises", "coupled.wing.disp", "coupled.wing_loads.loads", "coupled.aero_states.circulations", "coupled.wing.def_mesh"]


OBS_TAIL = ["tail_perf.vonmises", "coupled.tail.disp", "coupled.tail_loads.loads", "coupled.tail.struct_states.struct_weight_loads", "coupled.wing.struct_states.struct_weight_loads"]


def observe(p, pt="AS_point_0", two=False):
    return {o: np.array(p[pt + "." + o], dtype=float).copy() for o in OBS + (OBS_TAIL if two else [])}


THRUSTS = [5.0e3, 0.0, 8.0e3]  # point-mass configuration: the engine is idle (exactly zero thrust) at P1


def set_pt(p, k, cfg=None):
    for n, v in POINTS[k].items():
        p.set_val(n, np.array(v, dtype=float) if isinstance(v, list) else v)
    if cfg is not None and CONFIGS[cfg].get("pm"):
        p.set_val("engine_thrusts", [THRUSTS[k]])


_REFS = {}


def ref_obs(cfg, fam, k):
    key = (cfg, fam, k)
    if key not in _REFS:
        fl, rk = rot_kw(cfg, FLOW)
        p = builders.build_aerostruct(surfaces(cfg, fam), fl, pm=pm_of(cfg), **rk)
        builders.tighten(p)
        set_pt(p, k, cfg)
        p.run_model()
        _REFS[key] = observe(p, two=bool(CONFIGS[cfg].get("two")))
    return _REFS[key]


def run_state(s):
    return globals()["part_" + s["part"]](s)


def part_path(s):
    fl, rk = rot_kw(s["cfg"], FLOW)
    p = builders.build_aerostruct(surfaces(s["cfg"], s["fam"]), fl, pm=pm_of(s["cfg"]), **rk)
    builders.tighten(p, nl=s["nl"], lin=s["lin"])
    viol, val = [], 0
    dg = []
    two = bool(CONFIGS[s["cfg"]].get("two"))
    for step, k in enumerate(s["order"]):
        set_pt(p, k, s["cfg"])
        if s["guess"] == "scaled":
            # a deliberately bad initial guess: ten times the current displacement state (or a non-zero one at the start)
            d = p["AS_point_0.coupled.wing.disp"]
            p.set_val("AS_point_0.coupled.wing.disp", 10.0 * d + (0.01 if step == 0 else 0.0))
        try:
            if s["guess"] == "allstate":
                if step == 0:
                    p.run_model()  # something to restart from
                vec = p.model.AS_point_0.coupled._outputs
                vec.set_val(0.8 * vec.asarray())
            p.run_model()
        except om.AnalysisError as e:
            return dict(viol=viol, nontrivial=False, digest="nonconv:%s/%s" % (s["nl"], s["lin"]), transitions=step + 1, validated=val, inadmissible=True, counters=dict(nonconvergent=1))
        got = observe(p, two=two)
        ref = ref_obs(s["cfg"], s["fam"], k)
        for o in ref:
            val += 1
            sc = max(np.abs(ref[o]).max(), 1e-300)
            e = np.abs(got[o] - ref[o]).max() / sc
            if not e <= TOL:
                viol.append(dict(sig=dict(oracle="path_independent", observable=o.split(".")[-1], nl=s["nl"], lin=s["lin"], guess=s["guess"]), msg="%s at point %d (visit %d of order %s, %s/%s, guess %s) differs from the fresh default-solver analysis by %.2e" % (o, k, step, s["order"], s["nl"], s["lin"], s["guess"], e), measure=float(e)))
        dg.append(got["coupled.wing.disp"])
        # the structure inside the loop carries the sum of ALL load sources of the configuration (transferred aerodynamic loads,
        # structural and fuel weight, point masses, thrust), each taken from the group's own outputs
        c = CONFIGS[s["cfg"]]
        pre = "AS_point_0.coupled.wing.struct_states."
        parts = [p["AS_point_0.coupled.wing_loads.loads"]]
        if c["relief"]:
            parts.append(p[pre + "struct_weight_loads"])
        if c.get("pm"):
            parts += [p[pre + "loads_from_point_masses"], p[pre + "loads_from_thrusts"]]
        tot = np.sum(parts, axis=0)
        val += 1
        e = np.abs(p[pre + "total_loads"] - tot).max() / max(np.abs(tot).max(), 1e-300)
        # (the structure is evaluated before the load transfer within a sweep: the two agree to the solver tolerance only)
        if not e <= TOL:
            viol.append(dict(sig=dict(oracle="loads_on_structure_are_sum_of_sources", cfg=s["cfg"]), msg="%s: the loads applied to the structure inside the coupled loop differ from the sum of the configuration's load sources by %.2e (rel.)" % (s["cfg"], e), measure=float(e)))
    return dict(viol=viol, nontrivial=bool(np.abs(dg[0]).max() > 1e-9), digest=digest_arrays(*dg), transitions=len(s["order"]), validated=val)


def part_fixed(s):
    """loads -> structure -> deformed mesh -> flow -> loads recomputed with separately built real components"""
    from openaerostruct.aerodynamics.geometry import VLMGeometry
    from openaerostruct.aerodynamics.states import VLMStates
    from openaerostruct.structures.spatial_beam_states import SpatialBeamStates
    from openaerostruct.transfer.displacement_transfer_group import DisplacementTransferGroup
    from openaerostruct.transfer.load_transfer import LoadTransfer

    surf = surface(s["cfg"], s["fam"])
    p = builders.build_aerostruct([surf], FLOW)
    builders.tighten(p)
    set_pt(p, s["k"])
    p.run_model()
    A = "AS_point_0.coupled."
    disp = p[A + "wing.disp"].copy()
    loads = p[A + "wing_loads.loads"].copy()
    mesh = p["wing.mesh"].copy()
    nodes = p["wing.nodes"].copy()
    K = p["wing.local_stiff_transformed"].copy()
    # structure: loads -> disp'
    q = om.Problem(reports=False)
    ivc = om.IndepVarComp()
    ivc.add_output("loads", val=loads, units="N")
    ivc.add_output("local_stiff_transformed", val=K)
    if surf["struct_weight_relief"]:
        ivc.add_output("nodes", val=nodes, units="m")
        ivc.add_output("element_mass", val=p["wing.element_mass"].copy(), units="kg")
        ivc.add_output("load_factor", val=float(p["load_factor"][0]))
    q.model.add_subsystem("ivc", ivc, promotes=["*"])
    q.model.add_subsystem("s", SpatialBeamStates(surface=surf), promotes=["*"])
    q.setup()
    q.run_model()
    disp2 = q["disp"].copy()
    # displacement transfer + aero: disp -> def_mesh -> sec_forces -> loads'
    r = om.Problem(reports=False)
    ivc = om.IndepVarComp()
    ivc.add_output("mesh", val=mesh, units="m")
    ivc.add_output("nodes", val=nodes, units="m")
    ivc.add_output("disp", val=disp, units="m")
    for n_, u in (("v", "m/s"), ("alpha", "deg"), ("beta", "deg"), ("rho", "kg/m**3")):
        ivc.add_output(n_, val=float(p.get_val(n_)[0]), units=u)
    r.model.add_subsystem("ivc", ivc, promotes=["*"])
    r.model.add_subsystem("dt", DisplacementTransferGroup(surface=surf), promotes_inputs=["mesh", "nodes", "disp"], promotes_outputs=["def_mesh"])
    r.model.add_subsystem("geo", VLMGeometry(surface=surf), promotes_inputs=["def_mesh"], promotes_outputs=["normals"])
    r.model.add_subsystem("aero", VLMStates(surfaces=[surf]), promotes_inputs=["v", "alpha", "beta", "rho"])
    r.model.connect("def_mesh", "aero.wing_def_mesh")
    r.model.connect("normals", "aero.wing_normals")
    r.model.add_subsystem("lt", LoadTransfer(surface=surf), promotes_inputs=["def_mesh"])
    r.model.connect("aero.wing_sec_forces", "lt.sec_forces")
    r.setup()
    r.run_model()
    loads2 = r["lt.loads"].copy()
    viol = []
    e1 = np.abs(disp2 - disp).max() / max(np.abs(disp).max(), 1e-300)
    e2 = np.abs(loads2 - loads).max() / max(np.abs(loads).max(), 1e-300)
    e3 = np.abs(r["def_mesh"] - p[A + "wing.def_mesh"]).max() / np.abs(mesh).max()
    e4 = np.abs(r["aero.wing_sec_forces"] - p[A + "aero_states.wing_sec_forces"]).max() / max(np.abs(r["aero.wing_sec_forces"]).max(), 1e-300)
    for nm, e in (("disp", e1), ("loads", e2), ("def_mesh", e3), ("sec_forces", e4)):
        if not e <= TOL:
            viol.append(dict(sig=dict(oracle="fixed_point", observable=nm), msg="converged %s is not reproduced by the separately executed disciplines: %.2e" % (nm, e), measure=float(e)))
    return dict(viol=viol, nontrivial=bool(np.abs(disp).max() > 1e-9), digest=digest_arrays(disp, loads), transitions=3, validated=4)


PER_POINT = ["v", "alpha", "Mach_number", "re", "rho", "CT", "R", "W0", "speed_of_sound", "load_factor", "empty_cg"]


def part_multi(s):
    n = s["npts"]
    pf = [dict(), dict(alpha=2.0, load_factor=2.5, v=130.0), dict(alpha=6.0, load_factor=1.0, v=80.0)][:n]
    if s.get("rev"):
        pf = pf[::-1]
    p = builders.build_aerostruct([surface(s["cfg"], s["fam"])], FLOW, npoints=n, point_flows=pf, pm=pm_of(s["cfg"]))
    builders.tighten(p, npoints=n)
    p.run_model()
    base = [observe(p, "AS_point_%d" % i) for i in range(n)]
    viol, val, runs = [], 0, 1
    # every flight point of the multipoint model equals the single-point model (own surface dictionary) at that condition
    for i in range(n):
        fl = dict(FLOW)
        fl.update(pf[i])
        q = builders.build_aerostruct([surface(s["cfg"], s["fam"])], fl, pm=pm_of(s["cfg"]))
        builders.tighten(q)
        q.run_model()
        runs += 1
        single = observe(q)
        for o in OBS:
            val += 1
            e = np.abs(base[i][o] - single[o]).max() / max(np.abs(single[o]).max(), 1e-300)
            if not e <= TOL:
                viol.append(dict(sig=dict(oracle="multipoint_equals_single", observable=o.split(".")[-1], cfg=s["cfg"]), msg="%s of point %d of the %d-point model differs from the single-point analysis of the same condition by %.2e" % (o, i, n, e), measure=float(e)))
    changed_any = 0
    for j in range(n):
        for name in PER_POINT:
            var = "%s_%d" % (name, j)
            x0 = np.array(p.get_val(var), dtype=float)
            for f in (1.07, 0.9):
                p.set_val(var, x0 * f + (0.05 if np.all(x0 == 0) else 0.0))
                p.run_model()
                runs += 1
                for i in range(n):
                    got = observe(p, "AS_point_%d" % i)
                    if i == j:
                        changed_any += int(any(not np.array_equal(got[o], base[i][o]) for o in OBS))
                        continue
                    for o in OBS:
                        val += 1
                        e = np.abs(got[o] - base[i][o]).max() / max(np.abs(base[i][o]).max(), 1e-300)
                        # not bit-identical: every run_model re-iterates every point from its converged state (solver noise)
                        if not e <= 1e-9:
                            viol.append(dict(sig=dict(oracle="multipoint_isolation", observable=o.split(".")[-1], changed=name), msg="changing %s of point %d changes %s of point %d by %.2e" % (name, j, o, i, e), measure=float(e)))
            p.set_val(var, x0)
    p.run_model()
    return dict(viol=viol, nontrivial=bool(changed_any > 0), digest=digest_arrays(*[b["coupled.wing.disp"] for b in base]), transitions=runs, validated=val)


def part_stiff(s):
    surf0 = surface(s["cfg"], s["fam"])
    # rigid reference: aerodynamic analysis of the undeformed (geometry-group) mesh
    p0 = builders.build_aerostruct([surf0], FLOW)
    builders.tighten(p0)
    p0.run_model()
    mesh = p0["wing.mesh"].copy()
    a = builders.aero_surface("wing", mesh, surf0["symmetry"], with_viscous=True, CD0=surf0["CD0"], t_over_c_cp=surf0["t_over_c_cp"])
    pa = builders.build_aero([a], dict(v=FLOW["v"], alpha=FLOW["alpha"], rho=FLOW["rho"], Mach_number=FLOW["Mach_number"], re=1e6))
    pa.run_model()
    cl_r = pa["ap.CL"][0]
    d = []
    lad = [1.0, 1e2, 1e4, 1e6]
    for f in lad:
        p = builders.build_aerostruct([surface(s["cfg"], s["fam"], E_scale=f)], FLOW)
        builders.tighten(p)
        try:
            p.run_model()
        except om.AnalysisError:
            return dict(viol=[], nontrivial=False, digest="nonconv", transitions=len(d) + 2, validated=0, inadmissible=True)
        d.append(abs(p["AS_point_0.CL"][0] - cl_r))
    viol = []
    for k in range(1, len(lad)):
        if not d[k] <= max(d[k - 1], 1e-12) * (1 + 1e-9):
            viol.append(dict(sig=dict(oracle="stiffness_ladder_monotone"), msg="|CL - CL_rigid| grows from E x %g to E x %g: %.3e -> %.3e" % (lad[k - 1], lad[k], d[k - 1], d[k]), measure=float(d[k])))
        # proportional to 1/E: two decades of stiffness reduce the difference by about 100 (allow 20..500)
        if d[k - 1] > 1e-9:
            r = d[k - 1] / max(d[k], 1e-300)
            if not 20 <= r <= 500 and d[k] > 1e-11:
                viol.append(dict(sig=dict(oracle="stiffness_ladder_rate"), msg="difference to the rigid analysis does not scale like 1/E: ratio %.1f for a factor 100 in stiffness" % r, measure=float(r)))
    if not d[-1] <= 1e-6 * max(abs(cl_r), 1e-3):
        viol.append(dict(sig=dict(oracle="stiffness_limit"), msg="very stiff structure does not reproduce the rigid CL: diff %.3e" % d[-1], measure=float(d[-1])))
    if not d[0] > 1e-7:
        viol.append(dict(sig=dict(oracle="stiffness_effect"), msg="flexibility has no effect on CL (harness vacuous)", measure=float(d[0])))
    return dict(viol=viol, nontrivial=bool(d[0] > 1e-7), digest=digest_arrays(np.array(d)), transitions=len(lad) + 2, validated=2 * len(lad))
