"""C19 - composition of surfaces and wrappers does not change the physics."""
import itertools

import numpy as np
import openmdao.api as om

from oasmc import builders, gen
from oasmc.engine import digest_arrays

ID = "C19"
RULE = (
    "parts: perm = all permutations of surface lists (<=3 surfaces of mixed sizes, symmetric and full-span sets) x flows; split = every "
    "interior split column of a full-span surface; far = separation ladder of a second surface; wrap = MPhys Demux->AeroSolverGroup->Mux"
    "(+AeroFuncsGroup) vs native AeroPoint x compressible; mux = (de)multiplexers on EVERY unit vector of their input spaces (a complete "
    "basis: proves the linear maps) incl. matrix-free fwd/rev products; msec = multi-section dictionary vs ordinary surface with the unified mesh x all option "
    "combinations; asdecouple = two structural surfaces 2e5 m apart in one AerostructPoint vs each analysed alone (model pairs x symmetry); "
    "non-trivial = forces non-zero / basis vector mapped"
)
ASSUMPTIONS = ["finite alphabets; <=3 surfaces, nx<=3, ny<=7", "OpenMDAO/NumPy/SciPy/mphys trusted"]
BOUND = {"quick": "<=3 surfaces, all permutations, 3 symmetry patterns (full, half, mixed), small lattices exhaustively + production-size lattices (5x11 / 4x7 / 6x9) for the permutation, wrapper and multiplexer parts; ladder d in {10,1e2,1e4,1e6} chords", "thorough": "adds sizes, flows"}
TOL = 1e-9

SPECS_FULL = [
    dict(pf="swept", nx=3, ny=5, off=None, span=8.0, chord=1.5),
    dict(pf="rect", nx=2, ny=3, off=[5.0, 0.3, 0.7], span=3.0, chord=0.8),
    dict(pf="twdi", nx=2, ny=7, off=[-4.0, -0.2, -0.6], span=5.0, chord=1.0),
]
SPECS_SYM = [
    dict(pf="swept", nx=3, ny=3, off=None, span=8.0, chord=1.5),
    dict(pf="rect", nx=2, ny=2, off=[5.0, 0.0, 0.7], span=3.0, chord=0.8),
    dict(pf="twdi", nx=2, ny=4, off=[-4.0, 0.0, -0.6], span=5.0, chord=1.0),
]


def states(tier, seed):
    fam = seed % 3
    st = []
    flows = [(5.0, 0.0), (-3.0, 4.0), (2.0, -6.0)] if tier == "quick" else [(5.0, 0.0), (-3.0, 4.0), (12.0, -10.0), (0.0, 0.0)]
    # "mixed": full-span asymmetric surfaces and symmetric half-span surfaces in one list (full, half, full)
    for symset in (False, True, "mixed"):
        for n in (2, 3):
            for perm in itertools.permutations(range(n)):
                for al, be in flows:
                    if symset and be != 0.0:
                        continue
                    for visc in (False, True):
                        st.append(dict(part="perm", sym=symset, n=n, perm=list(perm), alpha=al, beta=be, visc=visc, fam=fam))
    for pf, nx, ny in itertools.product(["swept", "twdi", "camber"], [2, 3], [5, 7] if tier == "quick" else [5, 7, 9]):
        if pf == "camber" and nx < 3:
            continue
        for col in range(1, ny - 1):
            for al, be in flows:
                st.append(dict(part="split", pf=pf, nx=nx, ny=ny, col=col, alpha=al, beta=be, fam=fam))
    for pf, sym, al in itertools.product(["swept", "twdi"], [False, True], [5.0, -3.0]):
        for direction in ([1.0, 0.0, 0.0], [0.0, 0.0, 1.0], [0.6, 0.0, 0.8]) + (() if sym else ([0.0, 1.0, 0.0],)):
            st.append(dict(part="far", pf=pf, sym=sym, alpha=al, dir=list(direction), fam=fam))
    for symset, n, comp, (al, be) in itertools.product([False, True], [1, 2, 3], [False, True], flows):
        if symset and be != 0.0:
            continue
        st.append(dict(part="wrap", sym=symset, n=n, comp=comp, alpha=al, beta=be, fam=fam))
        if n <= 2 and be == 0.0:
            # the wrappers with a user-specified reference area (option of both the native point and AeroFuncsGroup)
            st.append(dict(part="wrap", sym=symset, n=n, comp=comp, alpha=al, beta=be, usr=True, fam=fam))
    # two structural surfaces in one aerostructural point, the second one very far away (no aerodynamic interaction): every
    # per-surface result equals that of the surface analysed alone - catches any mix-up between the surfaces in the group wiring
    for pair, sym in itertools.product(["tube+tube_same", "tube+wingbox", "wingbox+tube_same", "tube+tube_right"], [True, False]):
        if pair.endswith("right") and not sym:
            continue
        st.append(dict(part="asdecouple", pair=pair, sym=sym, fam=fam))
    # a multi-section surface dictionary handed to AeroPoint behaves exactly like the ordinary surface with the unified mesh and
    # the same documented aerodynamic entries (ground plane, viscous / wave drag, zero-alpha coefficients, laminar fraction ...)
    for nsec, ground, visc, wave, tail in itertools.product([2, 3], [False, True], [False, True], [False, True], [False, True]):
        st.append(dict(part="msec", nsec=nsec, ground=ground, visc=visc, wave=wave, tail=tail, fam=fam))
    for symset, n in itertools.product([False, True], [1, 2, 3]):
        for which in ("demux", "mux"):
            st.append(dict(part="mux", sym=symset, n=n, which=which, fam=fam))
    # the same parts on production-size lattices (5x11 / 4x7 / 6x9 full, 5x6 / 4x4 / 6x5 half): every permutation of three
    # surfaces, the wrappers, the (de)multiplexers
    for symset in (False, True, "mixed"):
        for perm in itertools.permutations(range(3)):
            st.append(dict(part="perm", sym=symset, n=3, perm=list(perm), alpha=5.0, beta=0.0 if symset else 4.0, visc=True, big=True, fam=fam))
    for symset, comp in itertools.product([False, True], [False, True]):
        st.append(dict(part="wrap", sym=symset, n=3, comp=comp, alpha=5.0, beta=0.0, big=True, fam=fam))
        for which in ("demux", "mux"):
            if comp:
                st.append(dict(part="mux", sym=symset, n=3, which=which, big=True, fam=fam))
    return st, 0

# production-size lattices, every chordwise and spanwise count different (block offsets beyond the small shapes)
BIG = {False: [(5, 11), (4, 7), (6, 9)], True: [(5, 6), (4, 4), (6, 5)]}
_BIG = [False]


def mk_surfs(sym, n, fam, visc=False):
    out = []
    mixed = sym == "mixed"
    for k in range(n):
        if mixed:
            sym = k % 2 == 1
        sp = (SPECS_SYM if sym else SPECS_FULL)[k]
        if _BIG[0]:
            sp = dict(sp, nx=BIG[bool(sym)][k][0], ny=BIG[bool(sym)][k][1])
        m = gen.make_mesh(sp["pf"], sp["nx"], sp["ny"], "left" if sym else "full", fam, asym=not sym, span=sp["span"], chord=sp["chord"], offset=sp["off"])
        out.append(builders.aero_surface("s%d" % k, m, sym, with_viscous=visc, CD0=0.01 * (k + 1), CL0=0.02 * k))
    return out


def run_state(s):
    _BIG[0] = bool(s.get("big"))
    try:
        return globals()["part_" + s["part"]](s)
    finally:
        _BIG[0] = False


def mac_of(p, name, sym):
    ch = p["ap.%s.chords" % name]
    w = p["ap.%s.widths" % name]
    S = p["ap.%s.S_ref" % name][0]
    mac = np.sum((0.5 * (ch[1:] + ch[:-1])) ** 2 * w) / S
    return mac * (2.0 if sym else 1.0)


def part_asdecouple(s):
    sym, fam = s["sym"], s["fam"]
    m1k, m2k = s["pair"].split("+")
    same = m2k.endswith("_same")
    right = m2k.endswith("_right")
    m2k = m2k.split("_")[0]
    side = "left" if sym else "full"
    ny = 3 if sym else 5
    mesh1 = gen.make_mesh("twdi", 2, ny, side, fam, asym=not sym, span=10.0, chord=1.6)
    mesh2 = gen.make_mesh("swept", 2 if same else 3, ny if same else (2 if sym else 3), ("right" if right else side), fam, asym=not sym, span=6.0, chord=1.1, offset=[3.0, 0.0, 2.0e5])

    def surf(name, mesh, model, k):
        kw = dict(struct_weight_relief=True, with_viscous=True, CL0=0.03 * (k + 1), CD0=0.01 * (k + 1), twist_cp=np.array([2.0, 1.0]) * (k + 1))
        if model == "tube":
            kw.update(thickness_cp=np.array([0.02, 0.03]) * (1.0 - 0.4 * k), fem_origin=0.35 + 0.2 * k)
        else:
            kw.update(spar_thickness_cp=np.array([0.005, 0.007]), skin_thickness_cp=np.array([0.01, 0.014]))
        sf = builders.struct_surface(name, mesh, sym, model, **kw)
        sf["E"] = sf["E"] * (1.0 + 0.5 * k)
        sf["yield"] = sf["yield"] * (1.0 - 0.3 * k)
        sf["mrho"] = sf["mrho"] * (1.0 + 0.2 * k)
        return sf

    fl = dict(Mach_number=0.5, W0=2.0e3, v=100.0, rho=0.9, alpha=4.0, beta=0.0 if sym else 3.0, speed_of_sound=200.0, R=2.0e6, load_factor=1.3)
    obs = ["coupled.aero_states.%s_sec_forces", "coupled.%s.disp", "coupled.%s_loads.loads", "coupled.%s.def_mesh", "%s_perf.vonmises", "%s_perf.failure", "%s_perf.CL", "%s_perf.CD", "%s_perf.CDv"]

    def run(surfs):
        p = builders.build_aerostruct(surfs, fl)
        builders.tighten(p, nl="default", lin="default")
        p.run_model()
        out = {}
        for sf in surfs:
            n = sf["name"]
            out[n] = {o: np.array(p["AS_point_0." + o % n], dtype=float).copy() for o in obs}
            out[n]["structural_mass"] = np.array(p[n + ".structural_mass"]).copy()
            out[n]["cg_location"] = np.array(p[n + ".cg_location"]).copy()
        return out

    alone = {"wing": run([surf("wing", mesh1, m1k, 0)])["wing"], "tail": run([surf("tail", mesh2, m2k, 1)])["tail"]}
    try:
        both = run([surf("wing", mesh1, m1k, 0), surf("tail", mesh2, m2k, 1)])
    except Exception as exc:  # noqa: BLE001
        if isinstance(exc, om.AnalysisError):
            raise
        # each surface was analysed alone a moment ago: the two together must at least set up
        return dict(viol=[dict(sig=dict(oracle="two_surface_aerostructural_sets_up"), msg="two surfaces that work alone fail together (%s): %s: %s" % (s["pair"], type(exc).__name__, str(exc)[:200]), measure=1.0)], nontrivial=True, digest="asdecouple-fail", transitions=3, validated=1)
    viol, val = [], 0
    for n in ("wing", "tail"):
        for o, a in alone[n].items():
            val += 1
            b = both[n][o]
            sc = max(np.abs(a).max(), 1e-12)
            e = np.abs(a - b).max() / sc
            if not e <= 1e-6:
                viol.append(dict(sig=dict(oracle="far_surfaces_decouple_aerostructural", observable=o.replace("%s", "").strip("._"), surf=n), msg="%s of surface %s in the two-surface aerostructural point (%s, other surface 2e5 m away) differs from the surface analysed alone by %.2e" % (o % n, n, s["pair"], e), measure=float(e)))
    return dict(viol=viol, nontrivial=True, digest=digest_arrays(both["wing"][obs[1]], both["tail"][obs[1]]), transitions=3, validated=val)


def part_msec(s):
    from openaerostruct.geometry.geometry_group import build_sections
    from openaerostruct.geometry.geometry_unification import unify_mesh

    n, fam = s["nsec"], s["fam"]
    meshes = []
    for i in range(n):
        m = np.zeros((3, 3, 3))
        y = np.linspace(-(n - i) * 1.25, -(n - i - 1) * 1.25, 3)
        m[:, :, 0] = (0.2 * (n - i) + 0.1 * np.abs(y - y[-1]))[None, :] + np.linspace(0.0, 1.0, 3)[:, None] * (1.0 + 0.15 * i + 0.01 * fam)
        m[:, :, 1] = y[None, :]
        m[:, :, 2] = 0.03 * np.abs(y)[None, :]
        meshes.append(m)
    aero = dict(CL0=0.06, CD0=0.012, with_viscous=s["visc"], with_wave=s["wave"], k_lam=0.3, t_over_c_cp=np.array([0.11]), c_max_t=0.35, S_ref_type="projected")
    if s["ground"]:
        aero["groundplane"] = True
    ms = {"name": "wing", "is_multi_section": True, "num_sections": n, "sec_name": ["sec%d" % i for i in range(n)], "symmetry": True, "meshes": [m.copy() for m in meshes], "ref_axis_pos": 0.3}
    ms.update({k: (v.copy() if isinstance(v, np.ndarray) else v) for k, v in aero.items()})
    uni = unify_mesh(build_sections(ms))
    ms["mesh"] = uni
    plain = builders.aero_surface("wing", uni, True, ref_axis_pos=0.3, **aero)
    extra = []
    if s["tail"]:
        tk = dict(with_viscous=s["visc"], CD0=0.01)
        if s["ground"]:
            tk["groundplane"] = True
        extra = [builders.aero_surface("tail", gen.make_mesh("rect", 2, 2, "left", fam, span=3.0, chord=0.8, offset=[6.0, 0.0, 0.7]), True, **tk)]
    fl = dict(v=200.0, alpha=4.0, rho=0.5, re=2e6, Mach_number=0.84 if s["wave"] else 0.5, cg=[0.5, 0.0, 0.1])
    if s["ground"]:
        fl["height_agl"] = 4.0
    out = []
    for first in (plain, ms):
        try:
            p = builders.build_aero([first] + [dict(e) for e in extra], fl)
            p.run_model()
        except Exception as exc:  # noqa: BLE001
            if first is plain:
                raise
            # the ordinary surface with the same entries was analysed a moment ago: the multi-section form must work too
            return dict(viol=[dict(sig=dict(oracle="multisection_sets_up", ground=s["ground"]), msg="the multi-section form of a surface that works as an ordinary surface fails: %s: %s" % (type(exc).__name__, str(exc)[:200]), measure=1.0)], nontrivial=True, digest="msec-fail", transitions=2, validated=1)
        d = {"CL": p["ap.CL"], "CD": p["ap.CD"], "CM": p["ap.CM"], "wing_F": p["ap.aero_states.wing_sec_forces"], "wing_CL": p["ap.wing_perf.CL"], "wing_CD": p["ap.wing_perf.CD"], "wing_CDv": p["ap.wing_perf.CDv"], "wing_CDw": p["ap.wing_perf.CDw"], "S_ref": p["ap.wing.S_ref"]}
        if s["tail"]:
            d["tail_F"] = p["ap.aero_states.tail_sec_forces"]
        out.append({k: np.array(v, dtype=float).copy() for k, v in d.items()})
    viol, val = [], 0
    for k in out[0]:
        val += 1
        sc = max(np.abs(out[0][k]).max(), 1e-12)
        e = np.abs(out[0][k] - out[1][k]).max() / sc
        if not e <= TOL:
            viol.append(dict(sig=dict(oracle="multisection_equals_unified_surface", observable=k, ground=s["ground"]), msg="%s of the multi-section surface differs from the ordinary surface with the unified mesh by %.2e (ground %s, viscous %s, wave %s, tail %s)" % (k, e, s["ground"], s["visc"], s["wave"], s["tail"]), measure=float(e)))
    return dict(viol=viol, nontrivial=True, digest=digest_arrays(out[0]["wing_F"]), transitions=2, validated=val)


def part_perm(s):
    surfs = mk_surfs(s["sym"], s["n"], s["fam"], s["visc"])
    fl = dict(v=60.0, alpha=s["alpha"], beta=s["beta"], rho=1.1, cg=[0.4, 0.0 if s["sym"] is True else 0.15, 0.1])
    p0 = builders.build_aero(surfs, fl)
    p0.run_model()
    p1 = builders.build_aero([surfs[k] for k in s["perm"]], fl)
    p1.run_model()
    viol, val = [], 0
    Fsc = max(max(np.abs(p0["ap.aero_states.%s_sec_forces" % sf["name"]]).max() for sf in surfs), gen.force_floor(1.1, 60.0, [sf["mesh"] for sf in surfs]))
    wh = dict(part="perm", n=s["n"], sym=s["sym"])

    def cmp(name, a, b, sc):
        nonlocal val
        val += 1
        e = np.abs(np.asarray(a) - np.asarray(b)).max() / max(sc, 1e-300)
        if not e <= TOL:
            viol.append(dict(sig=dict(oracle="permutation", observable=name, **wh), msg="%s changes under permutation %s of the surface list (rel %.2e)" % (name, s["perm"], e), measure=float(e)))

    for sf in surfs:
        n = sf["name"]
        cmp("sec_forces", p1["ap.aero_states.%s_sec_forces" % n], p0["ap.aero_states.%s_sec_forces" % n], Fsc)
        for q in ("CL", "CD"):
            cmp(q + "_surface", p1["ap.%s_perf.%s" % (n, q)], p0["ap.%s_perf.%s" % (n, q)], max(abs(p0["ap.%s_perf.%s" % (n, q)][0]), 1e-3))
    for q in ("CL", "CD"):
        cmp(q, p1["ap." + q], p0["ap." + q], max(abs(p0["ap." + q][0]), 1e-3))
    M0, M1 = p0["ap.total_perf.moment.M"], p1["ap.total_perf.moment.M"]
    cmp("M", M1, M0, max(np.abs(M0).max(), Fsc))
    mac0 = mac_of(p0, surfs[0]["name"], surfs[0]["symmetry"])
    mac1 = mac_of(p1, surfs[s["perm"][0]]["name"], surfs[s["perm"][0]]["symmetry"])
    cmp("CM*MAC1", p1["ap.CM"] * mac1, p0["ap.CM"] * mac0, max(np.abs(p0["ap.CM"] * mac0).max(), 1e-3))
    if s["perm"][0] == 0:
        cmp("CM", p1["ap.CM"], p0["ap.CM"], max(np.abs(p0["ap.CM"]).max(), 1e-3))
    return dict(viol=viol, nontrivial=bool(Fsc > 1e-9 and s["perm"] != sorted(s["perm"])), digest=digest_arrays(p0["ap.circulations"]), transitions=2, validated=val)


def part_split(s):
    m = gen.make_mesh(s["pf"], s["nx"], s["ny"], "full", s["fam"], asym=True)
    c = s["col"]
    fl = dict(v=60.0, alpha=s["alpha"], beta=s["beta"], rho=1.1, cg=[0.4, 0.15, 0.1])
    p0 = builders.build_aero([builders.aero_surface("w", m, False)], fl)
    p0.run_model()
    a, b = m[:, : c + 1].copy(), m[:, c:].copy()
    p1 = builders.build_aero([builders.aero_surface("a", a, False), builders.aero_surface("b", b, False)], fl)
    p1.run_model()
    F0 = p0["ap.aero_states.w_sec_forces"]
    F1 = np.concatenate([p1["ap.aero_states.a_sec_forces"], p1["ap.aero_states.b_sec_forces"]], axis=1)
    viol, val = [], 0
    Fsc = max(np.abs(F0).max(), gen.force_floor(1.1, 60.0, [m]))
    wh = dict(part="split")
    e = np.abs(F1 - F0).max() / max(Fsc, 1e-300)
    val += 1
    if not e <= TOL:
        viol.append(dict(sig=dict(oracle="split_surface", observable="sec_forces", **wh), msg="panel forces change when the surface is split at column %d (rel %.2e)" % (c, e), measure=float(e)))
    for q in ("CL", "CD"):
        val += 1
        x, y = p1["ap." + q][0], p0["ap." + q][0]
        if not abs(x - y) <= TOL * max(abs(y), 1e-3):
            viol.append(dict(sig=dict(oracle="split_surface", observable=q, **wh), msg="%s %.12g (split) vs %.12g" % (q, x, y), measure=float(abs(x - y))))
    val += 1
    x, y = p1["ap.total_perf.moment.M"], p0["ap.total_perf.moment.M"]
    if not np.abs(x - y).max() <= TOL * max(np.abs(y).max(), Fsc):
        viol.append(dict(sig=dict(oracle="split_surface", observable="M", **wh), msg="moment about cg changes under split", measure=float(np.abs(x - y).max())))
    return dict(viol=viol, nontrivial=bool(Fsc > 1e-9), digest=digest_arrays(F0), transitions=2, validated=val)


def part_far(s):
    sym = s["sym"]
    fam = s["fam"]
    wing = gen.make_mesh(s["pf"], 2, 3 if sym else 5, "left" if sym else "full", fam, asym=not sym)
    other0 = gen.make_mesh("swept", 2, 2 if sym else 3, "left" if sym else "full", fam, span=3.0, chord=0.8)
    fl = dict(v=60.0, alpha=s["alpha"], beta=0.0, rho=1.1, cg=[0.4, 0.0, 0.1])
    p0 = builders.build_aero([builders.aero_surface("w", wing, sym)], fl)
    p0.run_model()
    F0 = p0["ap.aero_states.w_sec_forces"]
    Fsc = max(np.abs(F0).max(), 1e-300)
    chord = 1.5
    lad = [10.0, 1e2, 1e4, 1e6]
    d = []
    for r in lad:
        off = np.array(s["dir"]) * r * chord
        p = builders.build_aero([builders.aero_surface("w", wing, sym), builders.aero_surface("o", other0 + off, sym)], fl)
        p.run_model()
        d.append(np.abs(p["ap.aero_states.w_sec_forces"] - F0).max() / Fsc)
    viol = []
    for k, r in enumerate(lad):
        # a lifting surface's far field decays at least like 1/d (trailing wake directly downstream) .. 1/d^2
        bound = 5.0 / r + 1e-10
        if not d[k] <= bound:
            viol.append(dict(sig=dict(oracle="far_surface", observable="sec_forces"), msg="influence %.2e of a surface %g chords away exceeds %.1e" % (d[k], r, bound), measure=float(d[k])))
        if k and not d[k] <= max(d[k - 1], 1e-11) * (1 + 1e-9):
            viol.append(dict(sig=dict(oracle="far_surface_monotone", observable="sec_forces"), msg="influence grows with distance: %.2e -> %.2e" % (d[k - 1], d[k]), measure=float(d[k])))
    if not d[0] > 1e-9:
        viol.append(dict(sig=dict(oracle="far_surface_effect", observable="sec_forces"), msg="no influence at 10 chords (%.1e): harness is vacuous" % d[0], measure=float(d[0])))
    return dict(viol=viol, nontrivial=bool(d[0] > 1e-9), digest=digest_arrays(np.array(d)), transitions=1 + len(lad), validated=2 * len(lad))


def part_wrap(s):
    from mphys.core import MPhysVariables as V

    from openaerostruct.mphys.aero_funcs_group import AeroFuncsGroup
    from openaerostruct.mphys.aero_solver_group import AeroSolverGroup
    from openaerostruct.mphys.demux_surface_mesh import DemuxSurfaceMesh
    from openaerostruct.mphys.mux_surface_forces import MuxSurfaceForces

    surfs = mk_surfs(s["sym"], s["n"], s["fam"], visc=True)
    M = 0.6
    fl = dict(v=60.0, alpha=s["alpha"], beta=s["beta"], rho=1.1, Mach_number=M, re=1.0e6, cg=[0.4, 0.0 if s["sym"] else 0.15, 0.1])
    usr = bool(s.get("usr"))
    p0 = builders.build_aero(surfs, fl, compressible=s["comp"], user_sref=37.7 if usr else None)
    p0.run_model()
    FC = V.Aerodynamics.FlowConditions
    p = om.Problem(reports=False)
    ivc = om.IndepVarComp()
    x = np.concatenate([sf["mesh"].ravel() for sf in surfs])
    ivc.add_output(V.Aerodynamics.Surface.COORDINATES, val=x, units="m")
    ivc.add_output(FC.ANGLE_OF_ATTACK, val=s["alpha"], units="deg")
    ivc.add_output(FC.YAW_ANGLE, val=s["beta"], units="deg")
    ivc.add_output(FC.MACH_NUMBER, val=M)
    ivc.add_output(FC.REYNOLDS_NUMBER, val=1.0e6, units="1/m")
    ivc.add_output("v", val=60.0, units="m/s")
    ivc.add_output("rho", val=1.1, units="kg/m**3")
    ivc.add_output("cg", val=fl["cg"], units="m")
    if usr:
        ivc.add_output("S_ref_total", val=37.7, units="m**2")
    p.model.add_subsystem("ivc", ivc, promotes=["*"])
    p.model.add_subsystem("demux", DemuxSurfaceMesh(surfaces=surfs), promotes=["*"])
    p.model.add_subsystem("solver", AeroSolverGroup(surfaces=surfs, compressible=s["comp"]), promotes=["*"])
    p.model.add_subsystem("mux", MuxSurfaceForces(surfaces=surfs), promotes=["*"])
    p.model.add_subsystem("funcs", AeroFuncsGroup(surfaces=surfs, write_solution=False, user_specified_Sref=usr), promotes=["*"])
    p.setup()
    for sf in surfs:
        p.set_val("%s.t_over_c" % sf["name"], 0.12)
    p.run_model()
    viol, val = [], 0
    wh = dict(part="wrap", comp=s["comp"], n=s["n"], user_sref=usr)
    Fsc = max(max(np.abs(p0["ap.aero_states.%s_sec_forces" % sf["name"]]).max() for sf in surfs), gen.force_floor(1.1, 60.0, [sf["mesh"] for sf in surfs]))

    def cmp(name, a, b, sc):
        nonlocal val
        val += 1
        e = np.abs(np.asarray(a) - np.asarray(b)).max() / max(sc, 1e-300)
        if not e <= TOL:
            viol.append(dict(sig=dict(oracle="mphys_wrapper", observable=name, **wh), msg="%s of the MPhys wrapper differs from AeroPoint (rel %.2e)" % (name, e), measure=float(e)))

    for sf in surfs:
        n = sf["name"]
        cmp("sec_forces", p["%s.sec_forces" % n], p0["ap.aero_states.%s_sec_forces" % n], Fsc)
        cmp("mesh_point_forces", p["%s_mesh_point_forces" % n], p0["ap.aero_states.%s_mesh_point_forces" % n], Fsc)
    cmp("circulations", p["circulations"], p0["ap.circulations"], np.abs(p0["ap.circulations"]).max())
    f = p[V.Aerodynamics.Surface.LOADS]
    want = np.concatenate([p0["ap.aero_states.%s_mesh_point_forces" % sf["name"]].ravel() for sf in surfs])
    cmp("f_aero", f, want, Fsc)
    for q in ("CL", "CD"):
        cmp(q, p[q], p0["ap." + q], max(abs(p0["ap." + q][0]), 1e-3))
    cmp("CM", p["CM"], p0["ap.CM"], max(np.abs(p0["ap.CM"]).max(), 1e-3))
    return dict(viol=viol, nontrivial=bool(Fsc > 1e-9), digest=digest_arrays(p0["ap.circulations"]), transitions=2, validated=val)


def part_mux(s):
    from mphys.core import MPhysVariables as V

    from openaerostruct.mphys.demux_surface_mesh import DemuxSurfaceMesh
    from openaerostruct.mphys.mux_surface_forces import MuxSurfaceForces

    surfs = mk_surfs(s["sym"], s["n"], s["fam"])
    N = sum(sf["mesh"].size for sf in surfs)
    demux = s["which"] == "demux"
    flat = V.Aerodynamics.Surface.COORDINATES if demux else V.Aerodynamics.Surface.LOADS
    per = [sf["name"] + ("_def_mesh" if demux else "_mesh_point_forces") for sf in surfs]
    mats = {}
    for mode in ("fwd", "rev"):
        p = om.Problem(reports=False)
        ivc = om.IndepVarComp()
        if demux:
            ivc.add_output(flat, val=np.zeros(N), units="m")
        else:
            for nm, sf in zip(per, surfs):
                ivc.add_output(nm, val=np.zeros(sf["mesh"].shape), units="N")
        p.model.add_subsystem("ivc", ivc, promotes=["*"])
        p.model.add_subsystem("c", (DemuxSurfaceMesh if demux else MuxSurfaceForces)(surfaces=surfs), promotes=["*"])
        p.setup(mode=mode)
        # the map itself on EVERY unit vector (complete basis)
        if mode == "fwd":
            P = np.zeros((N, N))
            for j in range(N):
                e = np.zeros(N)
                e[j] = 1.0
                if demux:
                    p.set_val(flat, e)
                else:
                    o = 0
                    for nm, sf in zip(per, surfs):
                        p.set_val(nm, e[o : o + sf["mesh"].size].reshape(sf["mesh"].shape))
                        o += sf["mesh"].size
                p.run_model()
                P[:, j] = np.concatenate([p[nm].ravel() for nm in per]) if demux else p[flat]
            mats["map"] = P
        p.run_model()
        of = per if demux else [flat]
        wrt = [flat] if demux else per
        T = p.compute_totals(of=of, wrt=wrt)
        J = np.block([[T[o, w].reshape(p[o].size, p[w].size) for w in wrt] for o in of])
        mats[mode] = J
    viol, val = [], 0
    P = mats["map"]
    I = np.eye(N)
    wh = dict(part="mux", which=s["which"], n=s["n"])
    tests = [
        ("is_identity_permutation", np.abs(P - I).max()),  # surfaces are stacked in list order, nodes row-major: the permutation is the identity
        ("is_permutation", max(np.abs(P @ P.T - I).max(), np.abs(np.sort(P, axis=0)[-1] - 1).max())),
        ("fwd_jacvec_equals_map", np.abs(mats["fwd"] - P).max()),
        ("rev_jacvec_is_adjoint", np.abs(mats["rev"] - P).max()),
    ]
    for name, e in tests:
        val += 1
        if not e <= 1e-12:
            viol.append(dict(sig=dict(oracle=name, **wh), msg="%s violated by %.2e" % (name, e), measure=float(e)))
    return dict(viol=viol, nontrivial=True, digest=digest_arrays(P.sum(axis=0), np.array([N])), transitions=N + 4, validated=val)
