"""C10 - structural displacements satisfy beam equilibrium with a clamped root."""
import itertools

import numpy as np
import openmdao.api as om

from oasmc import builders, gen
from oasmc.engine import digest_arrays
from oasmc.ref import ref_beam

ID = "C10"
RULE = (
    "complete product node layout x ny x side x section set x structural model; in each state the real SpatialBeamSetup+SpatialBeamStates "
    "is solved for EVERY unit nodal load (6*ny load cases: a complete basis, so equilibrium with the reference frame holds for all loads by "
    "linearity) plus generic fields; oracle = independent Przemieniecki frame with the root clamped, closed-form cantilever values, "
    "Maxwell-Betti symmetry of the flexibility matrix assembled from the unit-load columns, superposition, rigid rotation of the tube model; "
    "non-trivial = distinct configurations with non-zero response"
)
ASSUMPTIONS = ["finite alphabets for layouts (incl. half-span beams stored in either spanwise node order, 60 deg sweep, winglet, full-span structures centred and off the plane y = 0, model scale 1e-3, two materials) and section properties; ny<=7 in the complete product, ny<=41 (81 thorough) on two layouts", "reference frame oasmc/ref/ref_beam.py (self-tested on closed-form cantilevers)", "loads of 1e3 N >> 1e-6 N zeroing threshold", "OpenMDAO/NumPy/SciPy trusted"]
BOUND = {"quick": "ny in {2,3,4} half / {3,5} full exhaustively; production-size beams ny 21 (left), 16 (right), 41 (full) on two layouts x two models", "thorough": "ny up to 7 exhaustively; production-size beams up to ny 50 / 33 / 81"}
TOL = 1e-9
E_, G_ = 70.0e9, 30.0e9


def states(tier, seed):
    fam = seed % 3
    st = []
    sides = [("left", 2), ("left", 3), ("left", 4), ("full", 3), ("full", 5), ("right", 3)] + ([("left", 7), ("full", 7), ("right", 4)] if tier == "thorough" else [])
    layouts = ["straight", "swept", "sweptdi", "kinked", "swept60", "winglet"]
    secs = ["uniform", "varying", "tube"]
    for lay, (side, ny), sec, model in itertools.product(layouts, sides, secs, ["tube", "wingbox"]):
        st.append(dict(part="frame", layout=lay, side=side, ny=ny, sec=sec, model=model, fam=fam))
    # production-size node counts (index arithmetic of the assembly, the clamp row and the permutation beyond ny = 7)
    big = [("left", 21), ("full", 41), ("right", 16)] + ([("left", 50), ("full", 81), ("right", 33)] if tier == "thorough" else [])
    for lay, (side, ny), model in itertools.product(["sweptdi", "winglet"], big, ["tube", "wingbox"]):
        st.append(dict(part="frame", layout=lay, side=side, ny=ny, sec="varying", model=model, fam=fam))
    for lay, (side, ny), model in itertools.product(["sweptdi", "kinked"], [("leftrev", 3), ("leftrev", 4), ("rightrev", 3), ("rightrev", 2)], ["tube", "wingbox"]):
        st.append(dict(part="frame", layout=lay, side=side, ny=ny, sec="varying", model=model, fam=fam))
    for (side, ny), sec in itertools.product([("left", 2), ("left", 4), ("full", 5), ("full", 3)], ["uniform", "tube"]):
        st.append(dict(part="cantilever", side=side, ny=ny, sec=sec, fam=fam))
    for lay, (side, ny), rot in itertools.product(["swept", "sweptdi", "kinked"], [("left", 3), ("full", 5)] + ([("left", 4), ("full", 7)] if tier == "thorough" else []), ["z20", "z45", "x30", "y10"]):
        st.append(dict(part="rotate", layout=lay, side=side, ny=ny, rot=rot, fam=fam))
    # two beam models of different handedness / span type but equal node count solved one after the other in the SAME
    # process, both orders: each must still agree with the reference frame (no state shared between instances)
    for (a, b), ny, model in itertools.product(itertools.permutations(["left", "right", "full", "leftrev", "rightrev"], 2), [3, 5], ["tube", "wingbox"]):
        st.append(dict(part="sequence", sides=[a, b], ny=ny, model=model, layout="sweptdi", sec="varying", fam=fam))
    for (side, ny), sec, model in itertools.product([("left", 3), ("full", 5), ("right", 3)], ["varying", "tube"], ["tube", "wingbox"]):
        st.append(dict(part="frame", layout="sweptdi", side=side, ny=ny, sec=sec, model=model, gscale=1.0e-3, fam=fam))
    # full-span structures whose mid-span is off the plane y = 0
    for lay, ny, sec, model, yoff in itertools.product(["swept", "sweptdi"], [3, 5], ["varying"], ["tube", "wingbox"], [8.0, -3.0]):
        st.append(dict(part="frame", layout=lay, side="full", ny=ny, sec=sec, model=model, yoff=yoff, fam=fam))
    # interleaved set-ups of beams of different materials: A set up, B (other material) set up, A analysed
    for mat, omat, (side, ny), model in itertools.product(["alu", "steel"], ["alu", "steel"], [("left", 3), ("full", 5)], ["tube", "wingbox"]):
        if mat != omat:
            st.append(dict(part="frame", layout="sweptdi", side=side, ny=ny, sec="varying", model=model, mat=mat, other_first=dict(layout="swept", side="left", ny=3, sec="uniform", model=model, mat=omat, fam=fam), fam=fam))
    return st, 0


def nodes_of(s):
    """beam axis: built from a two-row mesh; returns the mesh (SpatialBeamSetup derives nodes from it)"""
    pf = {"straight": "rect", "swept": "swept", "sweptdi": "twdi", "kinked": "swept", "swept60": "rect", "winglet": "swept"}[s["layout"]]
    m = gen.make_mesh(pf, 2, s["ny"], s["side"].replace("rev", ""), s["fam"], asym=(s["side"] == "full" and s["layout"] != "straight"), span=10.0, chord=1.2)
    if s["side"].endswith("rev"):
        # the same half-span beam with its spanwise node order reversed (where the root is follows from the coordinates, not from the side)
        m = m[:, ::-1].copy()
    if s["layout"] == "swept60":
        # elements that run more chordwise than spanwise (sweep beyond 45 degrees), with a little dihedral
        m[:, :, 0] += 1.7 * np.abs(m[:, :, 1])
        m[:, :, 2] += 0.08 * np.abs(m[:, :, 1])
    if s["layout"] == "winglet":
        # the outermost 15 % of the semi-span is bent up steeply and swept aft: elements nearly vertical
        y = np.abs(m[:, :, 1])
        out = np.maximum(y - 0.85 * y.max(), 0.0)
        m[:, :, 2] += 4.0 * out
        m[:, :, 0] += 1.5 * out
    if s["layout"] == "kinked":
        y = np.abs(m[:, :, 1])
        m[:, :, 2] += 0.25 * np.maximum(y - 2.0, 0.0)
        m[:, :, 0] += 0.15 * np.maximum(y - 3.0, 0.0)
    if s.get("yoff"):
        # a full-span structure that is not centred on the plane y = 0 (mid-span at y = yoff): the clamp is at its own centre node
        m = m.copy()
        m[:, :, 1] += s["yoff"]
    return m * s.get("gscale", 1.0)  # gscale: the same beam at model scale (nothing in the frame equations carries a length scale)


def sections(s, ne):
    gs = s.get("gscale", 1.0)
    if gs != 1.0:
        A, Iy, Iz, J = sections(dict(s, gscale=1.0), ne)
        return A * gs**2, Iy * gs**4, Iz * gs**4, J * gs**4
    fam = s["fam"]
    if s["sec"] == "uniform":
        return np.full(ne, 2.0e-3), np.full(ne, 3.0e-6), np.full(ne, 5.0e-6), np.full(ne, 7.0e-6)
    if s["sec"] == "varying":
        return gen.gen((ne,), 1, 1e-3, 3e-3, fam), gen.gen((ne,), 2, 2e-6, 6e-6, fam), gen.gen((ne,), 3, 3e-6, 9e-6, fam), gen.gen((ne,), 4, 4e-6, 9e-6, fam)
    r = gen.gen((ne,), 5, 0.08, 0.15, fam)
    t = 0.1 * r
    A = np.pi * (r**2 - (r - t) ** 2)
    I = np.pi / 4 * (r**4 - (r - t) ** 4)
    return A, I, I.copy(), 2 * I


MATS = {"alu": (70.0e9, 30.0e9), "steel": (200.0e9, 77.0e9)}


def beam_problem(mesh, sym, model, A, Iy, Iz, J, mat="alu"):
    from openaerostruct.structures.spatial_beam_setup import SpatialBeamSetup
    from openaerostruct.structures.spatial_beam_states import SpatialBeamStates

    surf = builders.struct_surface("w", mesh, sym, model)
    surf["E"], surf["G"] = MATS[mat]
    p = om.Problem(reports=False)
    ny = mesh.shape[1]
    ivc = om.IndepVarComp()
    ivc.add_output("mesh", val=mesh, units="m")
    ivc.add_output("A", val=A, units="m**2")
    ivc.add_output("Iy", val=Iy, units="m**4")
    ivc.add_output("Iz", val=Iz, units="m**4")
    ivc.add_output("J", val=J, units="m**4")
    ivc.add_output("loads", val=np.zeros((ny, 6)), units="N")
    if model == "wingbox":
        ivc.add_output("A_int", val=np.full(ny - 1, 0.1), units="m**2")
    p.model.add_subsystem("ivc", ivc, promotes=["*"])
    p.model.add_subsystem("bsetup", SpatialBeamSetup(surface=surf), promotes=["*"])
    p.model.add_subsystem("bstates", SpatialBeamStates(surface=surf), promotes=["*"])
    p.setup()
    return p


def root_index(side, ny):
    # "leftrev": the left half (y <= 0) stored root first; "rightrev": the right half (y >= 0) stored tip first
    return {"left": ny - 1, "right": 0, "full": (ny - 1) // 2, "leftrev": 0, "rightrev": ny - 1}[side]


def run_state(s):
    return globals()["part_" + s["part"]](s)


def unit_solutions(p, ny):
    U = np.zeros((6 * ny, 6 * ny))
    for k in range(6 * ny):
        f = np.zeros(6 * ny)
        f[k] = 1.0e3
        p.set_val("loads", f.reshape(ny, 6))
        p.run_model()
        U[:, k] = p["disp"].ravel() / 1.0e3
    return U


def part_frame(s):
    m = nodes_of(s)
    ny = s["ny"]
    sym = s["side"] != "full"
    A, Iy, Iz, J = sections(s, ny - 1)
    mat = s.get("mat", "alu")
    p = beam_problem(m, sym, s["model"], A, Iy, Iz, J, mat=mat)
    if s.get("other_first"):
        # another beam of ANOTHER material is set up (not run) between this beam's set-up and its analysis
        sO = s["other_first"]
        beam_problem(nodes_of(sO), sO["side"] != "full", sO["model"], *sections(sO, sO["ny"] - 1), mat=sO.get("mat", "alu"))
    U = unit_solutions(p, ny)
    nodes = p["nodes"].copy()
    root = root_index(s["side"], ny)
    K = ref_beam.assemble(nodes, A, Iy, Iz, J, *MATS[mat])
    free = np.array([i for i in range(6 * ny) if i // 6 != root])
    Uref = np.zeros_like(U)
    Uref[np.ix_(free, free)] = np.linalg.inv(K[np.ix_(free, free)])
    viol, val = [], 0
    wh = dict(part="frame", side=s["side"], model=s["model"])
    sc = np.abs(Uref).max()
    # clamped root: no displacement for any load, and loads applied at the root produce no response
    val += 1
    e = max(np.abs(U[6 * root : 6 * root + 6, :]).max(), np.abs(U[:, 6 * root : 6 * root + 6]).max()) / sc
    if not e <= TOL:
        viol.append(dict(sig=dict(oracle="clamped_root", observable="disp", **wh), msg="root node %d (%s) is not clamped: response %.2e of max flexibility" % (root, s["side"], e), measure=float(e)))
    val += 1
    e = np.abs(U - Uref).max() / sc
    if not e <= TOL:
        viol.append(dict(sig=dict(oracle="ref_frame_equilibrium", observable="disp", **wh), msg="displacements differ from the independent frame solution by %.2e of the largest flexibility" % e, measure=float(e)))
    # equilibrium residual on free DOFs: K_ref u = f
    val += 1
    R = K[np.ix_(free, free)] @ U[np.ix_(free, free)] - np.eye(len(free))
    e = np.abs(R).max()
    if not e <= 1e-7:
        viol.append(dict(sig=dict(oracle="ref_frame_residual", observable="disp", **wh), msg="K_ref u - f = %.2e of the load" % e, measure=float(e)))
    val += 1
    e = np.abs(U - U.T).max() / sc
    if not e <= TOL:
        viol.append(dict(sig=dict(oracle="maxwell_betti", observable="disp", **wh), msg="flexibility matrix from unit loads is not symmetric: %.2e" % e, measure=float(e)))
    for g in range(2):
        f = np.concatenate([gen.gen((ny, 3), 3 + g, -2e3, 4e3, s["fam"]), gen.gen((ny, 3), 5 + g, -5e2, 5e2, s["fam"])], axis=1)
        p.set_val("loads", f)
        p.run_model()
        val += 1
        d = p["disp"].ravel()
        e = np.abs(d - U @ f.ravel()).max() / max(np.abs(d).max(), 1e-300)
        if not e <= 1e-8:
            viol.append(dict(sig=dict(oracle="superposition", observable="disp", **wh), msg="response to a generic load field differs from superposed unit-load responses by %.2e" % e, measure=float(e)))
    return dict(viol=viol, nontrivial=bool(sc > 0), digest=digest_arrays(U), transitions=6 * ny + 2, validated=val)


def part_sequence(s):
    viol, val, dg = [], 0, []
    for k, side in enumerate(s["sides"]):
        r = part_frame(dict(s, part="frame", side=side))
        val += r["validated"]
        dg.append(r["digest"])
        for v in r["viol"]:
            sig = dict(v["sig"], part="sequence", position=k, after=s["sides"][0] if k else "none")
            viol.append(dict(sig=sig, msg="model %d (%s) of the sequence %s: %s" % (k, side, s["sides"], v["msg"]), measure=v.get("measure", 1.0)))
    return dict(viol=viol, nontrivial=True, digest="|".join(dg), transitions=2 * (6 * s["ny"] + 2), validated=val)


def part_cantilever(s):
    """straight beam along y: closed-form tip deflections PL^3/3EI, slopes PL^2/2EI, TL/GJ, PL/EA at every node"""
    ny = s["ny"]
    sym = s["side"] != "full"
    m = gen.make_mesh("rect", 2, ny, s["side"], s["fam"], span=10.0, chord=1.2)
    A, Iy, Iz, J = sections(dict(s, sec="uniform" if s["sec"] == "uniform" else "tube"), ny - 1)
    if s["sec"] == "tube":
        A[:] = A[0]
        Iy[:] = Iy[0]
        Iz[:] = Iz[0]
        J[:] = J[0]
    p = beam_problem(m, sym, "tube", A, Iy, Iz, J)
    U = unit_solutions(p, ny)
    nodes = p["nodes"]
    root = root_index(s["side"], ny)
    viol, val = [], 0
    # tip = node 0 (left tip); beam runs along y from root to tip
    tip = 0
    L = abs(nodes[tip, 1] - nodes[root, 1])
    # candidates because the assignment of Iy/Iz to bending planes is OAS's convention: z-bending uses one, x-bending the other
    got_z = U[6 * tip + 2, 6 * tip + 2]
    got_x = U[6 * tip + 0, 6 * tip + 0]
    cz = [L**3 / (3 * E_ * I) for I in (Iy[0], Iz[0])]
    checks = [
        ("axial PL/EA", U[6 * tip + 1, 6 * tip + 1], L / (E_ * A[0])),
        ("torsion TL/GJ", U[6 * tip + 4, 6 * tip + 4], L / (G_ * J[0])),
    ]
    for name, g, w in checks:
        val += 1
        if not abs(g / w - 1) <= 1e-9:
            viol.append(dict(sig=dict(oracle="closed_form", case=name), msg="%s: %.12g vs %.12g" % (name, g, w), measure=float(abs(g / w - 1))))
    val += 2
    ez = min(abs(got_z / c - 1) for c in cz)
    ex = min(abs(got_x / c - 1) for c in cz)
    if not ez <= 1e-9:
        viol.append(dict(sig=dict(oracle="closed_form", case="bending z PL^3/3EI"), msg="tip z-deflection %.12g matches neither PL^3/3EIy nor PL^3/3EIz" % got_z, measure=float(ez)))
    if not ex <= 1e-9:
        viol.append(dict(sig=dict(oracle="closed_form", case="bending x PL^3/3EI"), msg="tip x-deflection %.12g matches neither PL^3/3EIy nor PL^3/3EIz" % got_x, measure=float(ex)))
    if Iy[0] != Iz[0]:
        val += 1
        # the two bending planes must use the two different inertias
        iz_used = int(np.argmin([abs(got_z / c - 1) for c in cz]))
        ix_used = int(np.argmin([abs(got_x / c - 1) for c in cz]))
        if iz_used == ix_used:
            viol.append(dict(sig=dict(oracle="closed_form", case="distinct inertias"), msg="both bending planes use the same second moment of area", measure=1.0))
    # slope under tip force PL^2/2EI, and deflection at intermediate nodes P a^2 (3L - a)/6EI
    Iuse = (Iy[0], Iz[0])[int(np.argmin([abs(got_z / c - 1) for c in cz]))]
    for j in range(ny):
        a = abs(nodes[j, 1] - nodes[root, 1])
        if (nodes[j, 1] - nodes[root, 1]) * (nodes[tip, 1] - nodes[root, 1]) < 0 or j == root:
            continue
        val += 1
        w = a**2 * (3 * L - a) / (6 * E_ * Iuse)
        g = U[6 * j + 2, 6 * tip + 2]
        if not abs(g - w) <= 1e-9 * cz[0]:
            viol.append(dict(sig=dict(oracle="closed_form", case="nodal exactness"), msg="deflection at node %d under tip load %.12g vs %.12g" % (j, g, w), measure=float(abs(g - w) / cz[0])))
    return dict(viol=viol, nontrivial=True, digest=digest_arrays(U), transitions=6 * ny, validated=val)


def rotmat(tag):
    ax, deg = tag[0], float(tag[1:])
    c, s_ = np.cos(np.radians(deg)), np.sin(np.radians(deg))
    return {"z": np.array([[c, -s_, 0], [s_, c, 0], [0, 0, 1]]), "x": np.array([[1, 0, 0], [0, c, -s_], [0, s_, c]]), "y": np.array([[c, 0, s_], [0, 1, 0], [-s_, 0, c]])}[ax]


def part_rotate(s):
    m = nodes_of(s)
    ny = s["ny"]
    sym = s["side"] != "full"
    A, Iy, Iz, J = sections(dict(s, sec="tube"), ny - 1)
    R = rotmat(s["rot"])
    m2 = np.einsum("ab,ijb->ija", R, m)
    f = np.concatenate([gen.gen((ny, 3), 3, -2e3, 4e3, s["fam"]), gen.gen((ny, 3), 5, -5e2, 5e2, s["fam"])], axis=1)
    f2 = np.concatenate([f[:, :3] @ R.T, f[:, 3:] @ R.T], axis=1)
    p1 = beam_problem(m, sym, "tube", A, Iy, Iz, J)
    p1.set_val("loads", f)
    p1.run_model()
    p2 = beam_problem(m2, sym, "tube", A, Iy, Iz, J)
    p2.set_val("loads", f2)
    p2.run_model()
    d1, d2 = p1["disp"], p2["disp"]
    want = np.concatenate([d1[:, :3] @ R.T, d1[:, 3:] @ R.T], axis=1)
    viol = []
    e = np.abs(d2 - want).max() / np.abs(d1).max()
    if not e <= 1e-8:
        viol.append(dict(sig=dict(oracle="rotation_equivariance", observable="disp", rot=s["rot"]), msg="rotating structure and loads by %s does not rotate the response: %.2e" % (s["rot"], e), measure=float(e)))
    return dict(viol=viol, nontrivial=bool(np.abs(d1).max() > 0), digest=digest_arrays(d1), transitions=2, validated=1)
