"""C20 - invalid set-ups are rejected loudly; valid ones give finite, repeatable results."""
import itertools
import warnings

import numpy as np
import openmdao.api as om

from oasmc import builders, gen
from oasmc.engine import digest_arrays

ID = "C20"
ENGINE = "H"
TECHNIQUE = "complete enumeration of malformed set-ups and dictionary keys; ALL interleavings (70 schedules) of the operation lists of two independent Problems in one process; repeated and independent executions compared bit-for-bit"
RULE = (
    "part reject: every documented error condition x every context (groups, list positions, values); part keys: every bogus key and every "
    "documented key alone; part finite/repeat/mutate: every admissible configuration of the builder menu (incl. the documented multi-section workflow with 1-4 user-supplied or "
    "generated sections), run twice, built twice, every array reachable from the user's dictionaries copied BEFORE the first library call and "
    "compared bit-for-bit after setup/run/totals/check_partials; part interleave: ALL C(8,4)=70 interleavings of [setup, run, totals, run] "
    "of two independent Problems for five model pairs, each problem's results compared bit-for-bit with its isolated execution; part fresh / genfresh / builderfresh: every ordered pair of "
    "configurations (resp. mesh-generator dictionaries, MPhys builder option sets) in a FRESH interpreter, second compared with itself alone; part keyseq: all histories of {build, add key, remove key, replace dict} up to depth 3 (T 4); "
    "part layout: the user's mesh array Fortran-ordered / strided / read-only gives bit-identical outputs and totals; process-state oracle around every admissible configuration; "
    "non-trivial = distinct set-ups / schedules"
)
ASSUMPTIONS = ["finite menus of malformed variants (listed in the evidence axes)", "single-threaded BLAS, so two executions of the same code on the same data are bit-identical", "OpenMDAO/NumPy trusted"]
BOUND = {"quick": "2 problems x 4 operations each (70 schedules) x 5 model pairs; 8x8 generator pairs; key histories to depth 3", "thorough": "adds 3 problems x 2 operations (90 schedules) and more configurations"}

PAIR_NAMES = ["aero_aero", "aero_as", "same_twice", "same_names_other_size", "left_vs_right", "as_left_vs_right", "struct_other_values", "as_other_values"]
BOGUS = ["twist", "Mesh", "symetry", "thickness", "sweep_cp", "taper_cp", "with_viscous_drag", "CDO", "k_Lam", "E_modulus", "span_cp", "fem_model"]


def states(tier, seed):
    fam = seed % 3
    st = []
    # ---- (a) rejected set-ups
    for ny, wt, sym in itertools.product([2, 4, 6, 8, 10, 12], ["rect", "CRM"], [True, False]):
        st.append(dict(part="reject", what="even_num_y", ny=ny, wt=wt, sym=sym, fam=fam))
    for wt in ["Rect", "crm", "ellipse", "", "RECT", "rectangular", "Crm"]:
        st.append(dict(part="reject", what="wing_type", wt=wt, fam=fam))
    for fm, grp in itertools.product(["Tube", "beam", "", "WINGBOX", "wing_box"], ["SpatialBeamAlone", "AerostructGeometry", "AerostructPoint"]):
        st.append(dict(part="reject", what="fem_model_type", fm=fm, group=grp, fam=fam))
    for which, grp in itertools.product(["skin_thickness_cp", "spar_thickness_cp"], ["SpatialBeamAlone", "AerostructGeometry"]):
        st.append(dict(part="reject", what="one_wingbox_thickness", which=which, group=grp, fam=fam))
    for ns, pos, grp in itertools.product([1, 2, 3], [0, 1, 2], ["AeroPoint", "AerostructPoint"]):
        if pos < ns:
            st.append(dict(part="reject", what="ground_without_symmetry", nsurf=ns, pos=pos, group=grp, fam=fam))
    for key, delta, nsec in itertools.product(["ny", "taper", "span", "sweep", "sec_name", "meshes"], [-1, +1], [2, 3]):
        st.append(dict(part="reject", what="multisection_length", key=key, delta=delta, nsec=nsec, fam=fam))
    # ---- (b) key warnings
    for k in BOGUS:
        for where in ("surface:Geometry", "surface:AerostructGeometry", "mesh_dict"):
            st.append(dict(part="keys", key=k, bogus=True, where=where, fam=fam))
    for k in DOCUMENTED_SURFACE:
        st.append(dict(part="keys", key=k, bogus=False, where="surface:AerostructGeometry", fam=fam))
    for k in DOCUMENTED_MESH:
        st.append(dict(part="keys", key=k, bogus=False, where="mesh_dict", fam=fam))
    # ---- (b') key warnings along histories of ONE user dictionary: build (B), add an unknown key (A), remove it (R), replace the
    # dictionary by a new object with the same content (N); every sequence of up to 3 (quick) / 4 (thorough) operations followed by a build
    for n in range(0, 4 if tier == "quick" else 5):
        for seq in itertools.product("BARN", repeat=n):
            for where in ("Geometry", "AerostructGeometry"):
                st.append(dict(part="keyseq", seq="".join(seq) + "B", where=where, fam=fam))
    # ---- (c,d,f) admissible configurations
    for cfg in config_menu(tier):
        st.append(dict(part="valid", cfg=cfg, fam=fam))
    # ---- (e) interleavings
    for pair in PAIR_NAMES:
        for sched in itertools.combinations(range(8), 4):
            st.append(dict(part="interleave", pair=pair, a_slots=list(sched), fam=fam))
    # (e') every ordered pair of the configuration menu executed in a FRESH interpreter: B after A must equal B alone
    for a_, b_ in itertools.permutations(range(len(FRESH_MENU)), 2):
        st.append(dict(part="fresh", a=a_, b=b_, fam=fam))
    # (d') the user's mesh array in another memory layout (Fortran order, strided view, read-only): identical results
    for cfg, layout in itertools.product(LAYOUT_MENU, ["f", "nc", "ro"]):
        st.append(dict(part="layout", cfg=cfg, layout=layout, fam=fam))
    # (e3) the MPhys builder: every ordered pair of option sets; the second builder's effective configuration compared with a fresh interpreter
    for a_, b_ in itertools.product(range(len(BUILDER_MENU)), repeat=2):
        st.append(dict(part="builderfresh", a=a_, b=b_, fam=fam))
    # (e'') the mesh generator: every ordered pair of mesh dictionaries (also twice the same), second one compared with a fresh interpreter
    for a_, b_ in itertools.product(range(len(GEN_MENU)), repeat=2):
        st.append(dict(part="genfresh", a=a_, b=b_, fam=fam))
    if tier == "thorough":
        # three problems, two operations each: all 90 interleavings
        for perm in sorted(set(itertools.permutations([0, 0, 1, 1, 2, 2]))):
            st.append(dict(part="interleave3", order=list(perm), fam=fam))
    return st, 0


DOCUMENTED_SURFACE = {
    "span": 9.0,
    "taper": 0.9,
    "sweep": 3.0,
    "dihedral": 2.0,
    "twist_cp": np.array([1.0, 2.0]),
    "chord_cp": np.array([1.0, 1.1]),
    "xshear_cp": np.array([0.0, 0.1]),
    "yshear_cp": np.array([0.0, 0.01]),
    "zshear_cp": np.array([0.0, 0.1]),
    "ref_axis_pos": 0.3,
    "groundplane": False,
    "fuel_density": 803.0,
    "Wf_reserve": 100.0,
    "n_point_masses": 1,
    "radius_cp": np.array([0.1, 0.12]),
}
DOCUMENTED_MESH = {"span": 9.0, "root_chord": 1.2, "span_cos_spacing": 0.5, "chord_cos_spacing": 0.5, "num_twist_cp": 3, "offset": np.array([1.0, 0.0, 0.5])}


def config_menu(tier):
    out = []
    for sym, comp, ground, visc, wave in itertools.product([True, False], [False, True], [False, True], [False, True], [False, True]):
        if ground and (not sym or comp):
            continue
        if tier == "quick" and (visc != wave):
            continue
        out.append(dict(kind="aero", sym=sym, comp=comp, ground=ground, visc=visc, wave=wave, ns=2))
        if not comp and not ground and visc:
            out.append(dict(kind="aero", sym=sym, comp=comp, ground=ground, visc=visc, wave=wave, ns=1, geomvars=True))
    for model, sym, relief in itertools.product(["tube", "wingbox"], [True, False], [False, True]):
        if tier == "quick" and sym != relief:
            continue
        out.append(dict(kind="as", model=model, sym=sym, relief=relief))
    # negative lift (push-over / negative-g cases are admissible flight conditions)
    out.append(dict(kind="as", model="tube", sym=True, relief=True, alpha=-6.0, nfac=-1.0))
    out.append(dict(kind="aero", sym=True, comp=False, ground=False, visc=True, wave=True, ns=1, alpha=-5.0))
    for model, sym in itertools.product(["tube", "wingbox"], [True, False]):
        out.append(dict(kind="struct", model=model, sym=sym))
    # multi-section surfaces through the documented workflow (build_sections, unify_mesh, MultiSecGeometry, AeroPoint):
    # user-supplied or generated section meshes, 1..4 sections, leading edges of neighbouring sections coincident or not
    # (the case shift_uni_mesh exists for), with and without the shift
    for nsec, user, le, shift in itertools.product([1, 2, 3, 4], [True, False], [0.0, 0.3], [True, False]):
        if (not user and le) or (tier == "quick" and not shift and (nsec in (1, 4) or not user)):
            continue
        out.append(dict(kind="multisec", nsec=nsec, user=user, le=le, shift=shift))
    return out


LAYOUT_MENU = [
    dict(kind="aero", sym=True, comp=False, ground=False, visc=True, wave=True, ns=2),
    dict(kind="aero", sym=False, comp=True, ground=False, visc=True, wave=False, ns=1, geomvars=True),
    dict(kind="aero", sym=True, comp=False, ground=True, visc=False, wave=False, ns=1, size=(4, 3)),
    dict(kind="as", model="tube", sym=True, relief=True),
    dict(kind="as", model="wingbox", sym=False, relief=True),
    dict(kind="struct", model="wingbox", sym=True),
]


def part_layout(s):
    outs = []
    for layout in (None, s["layout"]):
        p, surfs, of, wrt = make_model(dict(s["cfg"], layout=layout), s["fam"])
        p.run_model()
        tot = p.compute_totals(of=of, wrt=wrt)
        outs.append((all_outputs(p), {k: np.array(v) for k, v in tot.items()}))
    viol, val = [], 0
    (o0, t0), (o1, t1) = outs
    val += 1
    if not (o0.shape == o1.shape and np.array_equal(o0, o1)):
        e = float(np.abs(o0 - o1).max()) if o0.shape == o1.shape else float("inf")
        viol.append(dict(sig=dict(oracle="independent_of_memory_layout", layout=s["layout"], kind=s["cfg"]["kind"], what="outputs"), msg="the outputs differ (%.2e) when the user's mesh array is %s" % (e, {"f": "Fortran-ordered", "nc": "a strided view", "ro": "read-only"}[s["layout"]]), measure=1.0))
    for key in t0:
        val += 1
        if not np.array_equal(t0[key], t1[key]):
            viol.append(dict(sig=dict(oracle="independent_of_memory_layout", layout=s["layout"], kind=s["cfg"]["kind"], what="totals"), msg="total derivative %s differs when the user's mesh array is in layout %s" % (key, s["layout"]), measure=1.0))
            break
    return dict(viol=viol, nontrivial=True, digest="layout:%s:%s" % (s["layout"], digest_arrays(o0)), transitions=4, validated=val)


GEN_MENU = [
    dict(num_y=7, num_x=2, wing_type="rect", symmetry=True),
    dict(num_y=7, num_x=2, wing_type="rect", symmetry=True, span_cos_spacing=0.5),
    dict(num_y=7, num_x=2, wing_type="rect", symmetry=False, span_cos_spacing=0.5),
    dict(num_y=7, num_x=3, wing_type="rect", symmetry=True, span_cos_spacing=0.3, chord_cos_spacing=0.5),
    dict(num_y=5, num_x=3, wing_type="rect", symmetry=False, span_cos_spacing=1.0, chord_cos_spacing=0.5),
    dict(num_y=7, num_x=2, wing_type="CRM", symmetry=True, num_twist_cp=3),
    dict(num_y=7, num_x=3, wing_type="CRM", symmetry=False, num_twist_cp=3),
    dict(num_y=7, num_x=2, wing_type="rect", symmetry=True, span_cos_spacing=0.5, span=9.0, root_chord=1.2, offset=np.array([1.0, 0.0, 0.5])),
]


def gen_call(k):
    """one call of the documented mesh generator with a private copy of menu entry k; returns (arrays, dictionary unchanged?)"""
    from openaerostruct.geometry.utils import generate_mesh

    d = {key: (v.copy() if isinstance(v, np.ndarray) else v) for key, v in GEN_MENU[k].items()}
    before = {key: (v.copy() if isinstance(v, np.ndarray) else v) for key, v in d.items()}
    out = generate_mesh(d)
    arrays = [np.array(a, dtype=float) for a in (out if isinstance(out, tuple) else (out,))]
    same = set(d) == set(before) and all(np.array_equal(d[key], before[key]) for key in before)
    return arrays, same


BUILDER_MENU = [None, {"compressible": False}, {"user_specified_Sref": True}, {"write_solution": False, "output_dir": "./somewhere/"}, {"compressible": False, "user_specified_Sref": True, "write_solution": False}]


def builder_call(k):
    """one MPhys AeroBuilder with option set k (a private copy); returns its effective configuration: its own option table and
    the options of the coupling / post-coupling subsystems it hands out, encoded as numbers"""
    from openaerostruct.mphys.aero_builder import AeroBuilder

    m = gen.make_mesh("swept", 2, 3, "left", 0)
    surfs = [builders.aero_surface("wing", m, True)]
    opts = None if BUILDER_MENU[k] is None else dict(BUILDER_MENU[k])
    b = AeroBuilder(surfs, options=opts)
    cg, pg = b.get_coupling_group_subsystem(), b.get_post_coupling_subsystem()
    eff = [b.options["compressible"], b.options["user_specified_Sref"], b.options["write_solution"], len(b.options["output_dir"]), cg.options["compressible"], pg.options["user_specified_Sref"], pg.options["write_solution"], len(pg.options["output_dir"])]
    return [np.array([float(x) for x in eff])]


def part_builderfresh(s):
    a, b = s["a"], s["b"]
    alone = fresh_digest(dict(builders=[b]), s["fam"])
    after = fresh_digest(dict(builders=[a, b]), s["fam"])
    if alone[0] == "ERROR":
        raise RuntimeError("fresh-process job failed for builder option set %d: %s" % (b, alone[1]))
    viol = []
    if after[0] == "ERROR":
        viol.append(dict(sig=dict(oracle="fresh_process_pair", kind="exception", what="AeroBuilder"), msg="AeroBuilder(options=%r) fails after AeroBuilder(options=%r) in a fresh process: %s" % (BUILDER_MENU[b], BUILDER_MENU[a], after[1][-200:]), measure=1.0))
    elif after[0] != alone[0]:
        viol.append(dict(sig=dict(oracle="fresh_process_pair", kind="different_results", what="AeroBuilder"), msg="AeroBuilder(options=%r) is configured differently (options / subsystems %s instead of %s) when AeroBuilder(options=%r) was created before it in the same (fresh) process" % (BUILDER_MENU[b], after[1], alone[1], BUILDER_MENU[a]), measure=1.0))
    return dict(viol=viol, nontrivial=True, digest="bld:%d:%d:%s" % (a, b, after[0][:8]), transitions=4, validated=2)


def part_genfresh(s):
    a, b = s["a"], s["b"]
    alone = fresh_digest(dict(gens=[b]), s["fam"])
    after = fresh_digest(dict(gens=[a, b]), s["fam"])
    if alone[0] == "ERROR":
        raise RuntimeError("fresh-process job failed for mesh dictionary %d: %s" % (b, alone[1]))
    viol, val = [], 2
    if after[0] == "ERROR":
        viol.append(dict(sig=dict(oracle="fresh_process_pair", kind="exception", what="generate_mesh"), msg="generate_mesh(%r) fails after generate_mesh(%r) in a fresh process: %s" % (GEN_MENU[b], GEN_MENU[a], after[1][-200:]), measure=1.0))
    elif after[0] != alone[0]:
        viol.append(dict(sig=dict(oracle="fresh_process_pair", kind="different_results", what="generate_mesh"), msg="generate_mesh(%r) returns a different mesh when generate_mesh(%r) was called before it in the same (fresh) process" % (GEN_MENU[b], GEN_MENU[a]), measure=1.0))
    # in this (long-lived) process: the history a, b, a, b returns the same arrays for the same dictionary and leaves the dictionaries alone
    outs = []
    for k in (a, b, a, b):
        arrs, same = gen_call(k)
        val += 1
        if not same:
            viol.append(dict(sig=dict(oracle="user_dictionary_unchanged", what="generate_mesh"), msg="generate_mesh modifies the mesh dictionary %r" % GEN_MENU[k], measure=1.0))
        if not all(np.all(np.isfinite(x)) for x in arrs):
            viol.append(dict(sig=dict(oracle="finite", what="generate_mesh"), msg="generate_mesh(%r) returns non-finite values" % GEN_MENU[k], measure=1.0))
        outs.append(arrs)
    for i, j in ((0, 2), (1, 3)):
        val += 1
        if len(outs[i]) != len(outs[j]) or not all(x.shape == y.shape and np.array_equal(x, y) for x, y in zip(outs[i], outs[j])):
            viol.append(dict(sig=dict(oracle="repeatable", what="generate_mesh"), msg="generate_mesh returns different arrays for the same dictionary %r on the second call of the history (a, b, a, b), other dictionary %r" % (GEN_MENU[(a, b)[i]], GEN_MENU[(a, b)[1 - i]]), measure=1.0))
    return dict(viol=viol, nontrivial=True, digest="gen:%d:%d:%s" % (a, b, after[0][:8]), transitions=6, validated=val)


def run_state(s):
    return globals()["part_" + s["part"]](s)


def expect(viol, s, fn, exc):
    raised = None
    try:
        with warnings.catch_warnings():
            warnings.simplefilter("ignore")
            fn()
    except exc:
        raised = "ok"
    except om.AnalysisError as e:  # noqa
        # a solver that fails to converge is not a rejection of the input
        raised = type(e).__name__
    except Exception:  # noqa
        # the property asks for "an error instead of numbers": an exception of another type than the documented one still is one
        raised = "ok"
    if raised != "ok":
        sig = {k: v for k, v in s.items() if k in ("what", "group", "key", "delta")}
        viol.append(dict(sig=dict(oracle="rejected_loudly", got=str(raised), **sig), msg="%s: expected %s, got %s" % (s, getattr(exc, "__name__", exc), raised or "no exception (numbers were produced)"), measure=1.0))


def part_reject(s):
    from openaerostruct.geometry.utils import generate_mesh

    fam = s["fam"]
    viol = []
    w = s["what"]
    if w == "even_num_y":
        expect(viol, s, lambda: generate_mesh({"num_y": s["ny"], "num_x": 2, "wing_type": s["wt"], "symmetry": s["sym"]}), ValueError)
    elif w == "wing_type":
        expect(viol, s, lambda: generate_mesh({"num_y": 5, "num_x": 2, "wing_type": s["wt"], "symmetry": True}), NameError)
    elif w in ("fem_model_type", "one_wingbox_thickness"):
        m = gen.make_mesh("swept", 2, 3, "left", fam)
        if w == "fem_model_type":
            surf = builders.struct_surface("wing", m, True, "tube")
            surf["fem_model_type"] = s["fm"]
        else:
            surf = builders.struct_surface("wing", m, True, "wingbox")
            surf.pop("spar_thickness_cp" if s["which"] == "skin_thickness_cp" else "skin_thickness_cp")

        def go():
            if s["group"] == "SpatialBeamAlone":
                p = builders.build_struct(surf)
            elif s["group"] == "AerostructGeometry":
                from openaerostruct.integration.aerostruct_groups import AerostructGeometry

                p = om.Problem(reports=False)
                p.model.add_subsystem("g", AerostructGeometry(surface=surf))
                p.setup()
            else:
                from openaerostruct.integration.aerostruct_groups import AerostructPoint

                p = om.Problem(reports=False)
                p.model.add_subsystem("pt", AerostructPoint(surfaces=[surf]))
                p.setup()
            p.final_setup()

        # the statement demands an error instead of numbers; the groups that validate the key raise the documented NameError,
        # AerostructPoint fails earlier (KeyError for the missing wingbox data) - equally loud
        expect(viol, s, go, (NameError, KeyError) if s["group"] == "AerostructPoint" else NameError)
    elif w == "ground_without_symmetry":
        from oasmc.checks.c08 import part_reject as c08_reject

        r = c08_reject(dict(nsurf=s["nsurf"], pos=s["pos"], nx=2, ny=5, group=s["group"], fam=fam))
        for v in r["viol"]:
            viol.append(dict(sig=dict(oracle="rejected_loudly", what=w, group=s["group"], got=v["sig"]["got"]), msg=v["msg"], measure=1.0))
    elif w == "multisection_length":
        from openaerostruct.geometry.geometry_group import MultiSecGeometry

        n = s["nsec"]
        surf = {
            "name": "surface",
            "is_multi_section": True,
            "num_sections": n,
            "sec_name": ["sec%d" % i for i in range(n)],
            "symmetry": True,
            "S_ref_type": "wetted",
            "taper": [1.0] * n,
            "span": [1.0] * n,
            "sweep": [0.0] * n,
            "root_chord": 1.0,
            "meshes": "gen-meshes",
            "nx": 2,
            "ny": [3] * n,
            "CL0": 0.0,
            "CD0": 0.015,
            "k_lam": 0.05,
            "c_max_t": 0.303,
            "with_viscous": False,
            "with_wave": False,
        }
        k = s["key"]
        if k == "meshes":
            ms = [gen.make_mesh("rect", 2, 3, "left", fam, offset=[0, -4.0 * i, 0]) for i in range(n + s["delta"])]
            surf["meshes"] = ms
        else:
            base = surf[k]
            surf[k] = (base + base[:1]) if s["delta"] > 0 else base[:-1]

        def go():
            p = om.Problem(reports=False)
            p.model.add_subsystem("g", MultiSecGeometry(surface=surf))
            p.setup()
            p.final_setup()

        expect(viol, s, go, ValueError)
    return dict(viol=viol, nontrivial=True, digest="reject:%s:%d" % (w, len(viol)), transitions=1, validated=1)


def part_keys(s):
    from openaerostruct.geometry.geometry_group import Geometry
    from openaerostruct.geometry.utils import generate_mesh
    from openaerostruct.integration.aerostruct_groups import AerostructGeometry

    fam = s["fam"]
    k = s["key"]
    with warnings.catch_warnings(record=True) as rec:
        warnings.simplefilter("always")
        if s["where"] == "mesh_dict":
            d = {"num_y": 5, "num_x": 2, "wing_type": "rect", "symmetry": True}
            d[k] = 1.0 if s["bogus"] else DOCUMENTED_MESH[k]
            generate_mesh(d)
        else:
            m = gen.make_mesh("swept", 2, 3, "left", fam)
            surf = builders.struct_surface("wing", m, True, "tube")
            surf[k] = 1.0 if s["bogus"] else DOCUMENTED_SURFACE[k]
            if k == "radius_cp":
                pass
            p = om.Problem(reports=False)
            p.model.add_subsystem("g", (Geometry if s["where"].endswith(":Geometry") else AerostructGeometry)(surface=surf))
            p.setup()
    msgs = [str(w_.message) for w_ in rec if issubclass(w_.category, RuntimeWarning) and ("`%s`" % k) in str(w_.message)]
    viol = []
    if s["bogus"] and not msgs:
        viol.append(dict(sig=dict(oracle="unknown_key_warns", where=s["where"]), msg="unknown key %r in %s produced no RuntimeWarning" % (k, s["where"]), measure=1.0))
    if not s["bogus"] and msgs:
        viol.append(dict(sig=dict(oracle="documented_key_silent", where=s["where"], key=k), msg="documented key %r produced a warning: %s" % (k, msgs[0][:100]), measure=1.0))
    return dict(viol=viol, nontrivial=True, digest="keys:%s:%s:%d" % (k, s["where"], len(msgs)), transitions=1, validated=1)


def part_keyseq(s):
    """the warning for an unknown key depends on the dictionary's CONTENT at the time a model is built from it, not on whether
    this dictionary object (or an earlier one at the same address) was seen before"""
    import gc

    from openaerostruct.geometry.geometry_group import Geometry
    from openaerostruct.integration.aerostruct_groups import AerostructGeometry

    G = Geometry if s["where"] == "Geometry" else AerostructGeometry
    key = "sweeep"
    m = gen.make_mesh("swept", 2, 3, "left", s["fam"])
    surf = builders.struct_surface("wing", m, True, "tube")
    viol, val, builds = [], 0, 0
    for pos, op in enumerate(s["seq"]):
        if op == "A":
            surf[key] = 10.0
        elif op == "R":
            surf.pop(key, None)
        elif op == "N":
            new = dict(surf)
            del surf
            gc.collect()
            surf = dict(new)
            del new
        else:
            with warnings.catch_warnings(record=True) as rec:
                warnings.simplefilter("always")
                p = om.Problem(reports=False)
                p.model.add_subsystem("g", G(surface=surf))
                p.setup()
            del p
            builds += 1
            warned = any(issubclass(w_.category, RuntimeWarning) and ("`%s`" % key) in str(w_.message) for w_ in rec)
            val += 1
            if warned != (key in surf):
                viol.append(dict(sig=dict(oracle="unknown_key_warns" if key in surf else "documented_key_silent", where=s["where"], history=True), msg="history %s, build at position %d: unknown key present=%s but warning issued=%s" % (s["seq"], pos, key in surf, warned), measure=1.0))
    return dict(viol=viol, nontrivial=True, digest="keyseq:%s:%s:%d" % (s["seq"], s["where"], len(viol)), transitions=len(s["seq"]), validated=val)


# ------------------------------------------------------------------ admissible configurations
def relayout(m, layout):
    """the same mesh values in another memory layout: Fortran order, a strided view of a larger array, a read-only array"""
    if layout == "f":
        return np.asfortranarray(m)
    if layout == "nc":
        big = np.full((m.shape[0] * 2, m.shape[1] * 2, 3), 7.7)
        big[::2, ::2] = m
        return big[::2, ::2]
    if layout == "ro":
        r = m.copy()
        r.setflags(write=False)
        return r
    return m


def make_model(cfg, fam, mode="rev"):
    """returns (problem, user_arrays, of, wrt): user_arrays = every array the user put into the surface dictionaries"""
    if cfg["kind"] == "aero":
        side = cfg.get("side", "left") if cfg["sym"] else "full"
        surfs = []
        for i in range(cfg.get("ns", 1)):
            nx_, ny_ = (2 if i != 2 else 3), ((3 if cfg["sym"] else 5) if i == 0 else (2 if cfg["sym"] else 3))
            if i == 0 and "size" in cfg:
                nx_, ny_ = cfg["size"]
            m = gen.make_mesh(["twdi", "swept", "camber"][i], nx_, ny_, side, fam, asym=not cfg["sym"], offset=[4.5 * i, 0, 0.4 * i])
            m = relayout(m, cfg.get("layout"))
            kw = dict(with_viscous=cfg["visc"], with_wave=cfg["wave"], twist_cp=np.array([1.0, 2.0, 0.5]), chord_cp=np.array([1.0, 1.1]), t_over_c_cp=np.array([0.12, 0.14]), CD0=0.01)
            if cfg.get("geomvars"):
                # every geometry variable active at a non-default value (each one reads the user's mesh / control points)
                kw.update(taper=0.8, sweep=5.0, dihedral=3.0, xshear_cp=np.array([0.0, 0.1]), yshear_cp=np.array([0.0, 0.02]), zshear_cp=np.array([0.0, 0.05]), ref_axis_pos=0.4)
                if cfg["sym"]:
                    kw["span"] = 9.0
            if cfg["ground"]:
                kw["groundplane"] = True
            surfs.append(builders.aero_surface(cfg.get("name", "s") + "%d" % i, m, cfg["sym"], **kw))
        fl = dict(v=200.0, alpha=cfg.get("alpha", 3.0), rho=0.5, re=2e6, Mach_number=0.84 if cfg["wave"] else 0.5, cg=[0.5, 0.0, 0.1])
        if cfg["ground"]:
            fl["height_agl"] = 6.0
        pristine = snapshot(surfs)
        p = builders.build_aero(surfs, fl, compressible=cfg["comp"], with_geom=True, mode=mode)
        p._oasmc_pristine = pristine
        return p, surfs, ["ap.CL", "ap.CD", "ap.CM"], ["alpha", cfg.get("name", "s") + "0.twist_cp"]
    if cfg["kind"] == "multisec":
        return make_multisec(cfg, fam, mode)
    if cfg["kind"] == "as":
        m = gen.make_mesh("twdi", 2, cfg.get("ny", 3 if cfg["sym"] else 5), cfg.get("side", "left") if cfg["sym"] else "full", fam, asym=not cfg["sym"], span=10.0, chord=1.6)
        m = relayout(m, cfg.get("layout"))
        extra = dict(taper=0.9, sweep=4.0, chord_cp=np.array([1.0, 1.05]), t_over_c_cp=np.array([0.12, 0.14])) if cfg.get("geomvars", True) else {}
        s = builders.struct_surface("wing", m, cfg["sym"], cfg["model"], struct_weight_relief=cfg["relief"], with_viscous=True, twist_cp=np.array([2.0, 3.0, 1.0]), **extra)
        alt_values(s, cfg)
        pristine = snapshot([s])
        p = builders.build_aerostruct([s], dict(Mach_number=0.5, W0=2.0e3, v=100.0, rho=0.9, alpha=cfg.get("alpha", 4.0), speed_of_sound=200.0, R=2.0e6, load_factor=cfg.get("nfac", 1.3)), mode=mode)
        p._oasmc_pristine = pristine
        builders.tighten(p)
        return p, [s], ["AS_point_0.CL", "AS_point_0.fuelburn", "AS_point_0.wing_perf.failure"], ["alpha", "wing.twist_cp"]
    m = gen.make_mesh("twdi", 2, cfg.get("ny", 3 if cfg["sym"] else 5), cfg.get("side", "left") if cfg["sym"] else "full", fam, asym=not cfg["sym"], span=10.0, chord=1.6)
    m = relayout(m, cfg.get("layout"))
    s = builders.struct_surface("wing", m, cfg["sym"], cfg["model"], struct_weight_relief=True, twist_cp=np.array([2.0, 3.0, 1.0]))
    alt_values(s, cfg)
    ny = m.shape[1]
    loads = np.concatenate([gen.gen((ny, 3), 3, -2e3, 4e3, fam), gen.gen((ny, 3), 4, -5e2, 5e2, fam)], axis=1)
    pristine = snapshot([s])
    p = builders.build_struct(s, loads, mode=mode)
    p._oasmc_pristine = pristine
    return p, [s], ["failure", "structural_mass"], ["loads", "geometry.twist_cp"]


def alt_values(surf, cfg):
    """cfg['alt']: every scalar entry of the dictionary takes another (admissible) value - another material, other coefficients - so
    that anything derived from the dictionary and kept outside the instance shows up when two such models share a process"""
    if not cfg.get("alt"):
        return
    fac = dict(E=200.0 / 70.0, G=77.0 / 30.0, mrho=2.6, wing_weight_ratio=0.8, CL0=1.0, CD0=1.5, k_lam=3.0, c_max_t=1.2, fuel_density=0.9, Wf_reserve=0.5, strength_factor_for_upper_skin=0.9, original_wingbox_airfoil_t_over_c=1.0)
    for k, f in fac.items():
        if k in surf and np.isscalar(surf[k]):
            surf[k] = surf[k] * f
    surf["yield"] = surf["yield"] * 1.7
    if "fem_origin" in surf:
        surf["fem_origin"] = 0.45
    surf["CL0"] = surf.get("CL0", 0.0) + 0.07
    if "data_x_upper" in surf:
        # another wingbox section: box from 25 % to 70 % chord, other thickness distribution
        x = np.linspace(0.25, 0.70, len(surf["data_x_upper"]))
        surf["data_x_upper"] = x.copy()
        surf["data_x_lower"] = x.copy()
        surf["data_y_upper"] = 0.055 * np.sqrt(1 - ((x - 0.4) / 0.65) ** 2) + 0.002
        surf["data_y_lower"] = -0.045 * np.sqrt(1 - ((x - 0.38) / 0.68) ** 2) - 0.001


def make_multisec(cfg, fam, mode):
    from openaerostruct.aerodynamics.aero_groups import AeroPoint
    from openaerostruct.geometry.geometry_group import MultiSecGeometry, build_sections
    from openaerostruct.geometry.geometry_unification import unify_mesh

    n = cfg["nsec"]
    surf = {
        "name": "surface",
        "is_multi_section": True,
        "num_sections": n,
        "sec_name": ["sec%d" % i for i in range(n)],
        "symmetry": True,
        "S_ref_type": "wetted",
        "twist_cp": [np.array([0.5 + 0.3 * i, 1.0 - 0.2 * i]) for i in range(n)],
        "chord_cp": [np.array([1.0, 1.0 + 0.05 * (i + 1)]) for i in range(n)],
        "CL0": 0.0,
        "CD0": 0.015,
        "k_lam": 0.05,
        "c_max_t": 0.303,
        "t_over_c_cp": [np.array([0.12])] * 1,
        "with_viscous": True,
        "with_wave": False,
        "groundplane": False,
    }
    surf["t_over_c_cp"] = np.array([0.12])
    if cfg["user"]:
        # section i spans y in [-(n-i), -(n-i-1)]; every section is meshed in its own local x origin (offset le * (n-1-i))
        ms = []
        for i in range(n):
            m = np.zeros((2, 3, 3))
            ch = 1.0 + 0.1 * i + 0.01 * fam
            m[:, :, 0] = np.linspace(0.0, ch, 2)[:, None] + cfg["le"] * (n - 1 - i) * (1.0 + 0.37 * i)
            m[:, :, 1] = np.linspace(-(n - i) * 1.25, -(n - i - 1) * 1.25, 3)[None, :]
            m[:, :, 2] = 0.02 * i
            ms.append(m)
        surf["meshes"] = ms
    else:
        surf.update(meshes="gen-meshes", nx=2, ny=[3] * n, taper=[1.0 - 0.1 * i for i in range(n)][::-1], span=[1.25] * n, sweep=[5.0 * i for i in range(n)][::-1], root_chord=1.3 + 0.01 * fam)
    pristine = snapshot([surf])
    p = om.Problem(reports=False)
    p._oasmc_pristine = pristine
    ivc = om.IndepVarComp()
    for k, v, u in (("v", 60.0, "m/s"), ("alpha", 4.0, "deg"), ("Mach_number", 0.3, None), ("re", 1.0e6, "1/m"), ("rho", 0.9, "kg/m**3")):
        ivc.add_output(k, val=v, units=u)
    ivc.add_output("cg", val=np.array([0.3, 0.0, 0.0]), units="m")
    p.model.add_subsystem("prob_vars", ivc, promotes=["*"])
    p.model.add_subsystem("surface", MultiSecGeometry(surface=surf, shift_uni_mesh=cfg["shift"]))
    sections = build_sections(surf)
    uni = unify_mesh(sections, shift_uni_mesh=cfg["shift"])
    surf["mesh"] = uni
    p.model.add_subsystem("ap", AeroPoint(surfaces=[surf]), promotes_inputs=["v", "alpha", "Mach_number", "re", "rho", "cg"])
    src = "surface.surface_unification.surface_uni_mesh"
    p.model.connect(src, "ap.surface.def_mesh")
    p.model.connect(src, "ap.aero_states.surface_def_mesh")
    p.setup(mode=mode, force_alloc_complex=True)
    return p, [surf], ["ap.CL", "ap.CD", "ap.CM"], ["alpha", "surface.sec0.twist_cp"]


def _arrays(obj, path=""):
    if isinstance(obj, np.ndarray):
        yield path, obj
    elif isinstance(obj, (list, tuple)):
        for i, o in enumerate(obj):
            yield from _arrays(o, "%s[%d]" % (path, i))
    elif isinstance(obj, dict):
        for k, o in obj.items():
            yield from _arrays(o, "%s.%s" % (path, k) if path else str(k))


def snapshot(surfs):
    """a copy of every array reachable from the user's dictionaries (top-level values, lists such as the section meshes
    and per-section control points, nested dictionaries)"""
    return [{k: np.array(v, copy=True) for k, v in _arrays(s)} for s in surfs]


def all_outputs(p):
    v = p.model._outputs.asarray()
    return np.array(v, dtype=float, copy=True)


def process_state():
    """process-wide settings a library must leave as it found them (another Problem in the same process sees them)"""
    import decimal
    import hashlib
    import os
    import random
    import sys

    return {
        "warnings.filters": [repr(f) for f in warnings.filters],
        "numpy.geterr": dict(np.geterr()),
        "numpy.printoptions": repr(sorted(np.get_printoptions().items())),
        "numpy.random.state": hashlib.sha256(repr(np.random.get_state()).encode()).hexdigest()[:12],
        "random.state": hashlib.sha256(repr(random.getstate()).encode()).hexdigest()[:12],
        "sys.recursionlimit": sys.getrecursionlimit(),
        "sys.path": list(sys.path),
        "os.cwd": os.getcwd(),
        "os.environ": hashlib.sha256(repr(sorted(os.environ.items())).encode()).hexdigest()[:12],
        "decimal.prec": decimal.getcontext().prec,
    }


def part_valid(s):
    import contextlib
    import io

    cfg, fam = s["cfg"], s["fam"]
    viol, val = [], 0
    wh = dict(kind=cfg["kind"])
    ps0 = process_state()
    # user arrays as they were before the first library call
    p, surfs, of, wrt = make_model(cfg, fam)
    snap = p._oasmc_pristine

    def unchanged(stage):
        nonlocal val
        for s0, s1 in zip(snap, surfs):
            now = dict(_arrays(s1))
            for k, v in s0.items():
                val += 1
                if not (isinstance(now.get(k), np.ndarray) and np.array_equal(v, now[k])):
                    viol.append(dict(sig=dict(oracle="user_arrays_untouched", key=k, stage=stage, **wh), msg="user array %r of surface %r changed during %s" % (k, s1["name"], stage), measure=1.0))

    unchanged("setup")
    p.run_model()
    unchanged("run_model")
    o1 = all_outputs(p)
    val += 1
    if not np.all(np.isfinite(o1)):
        viol.append(dict(sig=dict(oracle="finite_outputs", **wh), msg="non-finite outputs for admissible configuration %s" % cfg, measure=1.0))
    T1 = p.compute_totals(of=of, wrt=wrt)
    unchanged("compute_totals")
    t1 = np.concatenate([np.asarray(T1[o, w]).ravel() for o in of for w in wrt])
    val += 1
    if not np.all(np.isfinite(t1)):
        viol.append(dict(sig=dict(oracle="finite_totals", **wh), msg="non-finite total derivatives for %s" % cfg, measure=1.0))
    p.run_model()
    o2 = all_outputs(p)
    val += 1
    tol = 0.0 if cfg["kind"] != "as" else 1e-9
    e = np.abs(o2 - o1).max() / max(np.abs(o1).max(), 1e-300)
    rel = np.abs(o2 - o1) / np.maximum(np.abs(o1), 1e-30 + 1e-12 * np.abs(o1).max())
    if cfg["kind"] != "as":
        if not np.array_equal(o1, o2):
            viol.append(dict(sig=dict(oracle="repeatable_same_problem", **wh), msg="second run_model of the same problem changes outputs by %.2e (direct solvers: expected bit-identical)" % e, measure=float(e)))
    elif not e <= tol:
        viol.append(dict(sig=dict(oracle="repeatable_same_problem", **wh), msg="second run_model changes outputs by %.2e" % e, measure=float(e)))
    # independent problem
    q, _, _, _ = make_model(cfg, fam)
    q.run_model()
    o3 = all_outputs(q)
    T3 = q.compute_totals(of=of, wrt=wrt)
    t3 = np.concatenate([np.asarray(T3[o, w]).ravel() for o in of for w in wrt])
    val += 2
    if not np.array_equal(o1, o3):
        viol.append(dict(sig=dict(oracle="repeatable_independent_problem", observable="outputs", **wh), msg="an independently built problem gives different outputs (max rel %.2e)" % (np.abs(o3 - o1).max() / max(np.abs(o1).max(), 1e-300)), measure=1.0))
    if not np.array_equal(t1, t3):
        viol.append(dict(sig=dict(oracle="repeatable_independent_problem", observable="totals", **wh), msg="an independently built problem gives different totals", measure=1.0))
    if cfg["kind"] != "as" or s.get("chk", True):
        with contextlib.redirect_stdout(io.StringIO()):
            p.check_partials(compact_print=True, out_stream=None)
        unchanged("check_partials")
    ps1 = process_state()
    for k in ps0:
        val += 1
        if ps0[k] != ps1[k]:
            viol.append(dict(sig=dict(oracle="process_state_untouched", what=k, **wh), msg="building / running / linearising this model changed the process-wide setting %s: %s -> %s" % (k, str(ps0[k])[:150], str(ps1[k])[:150]), measure=1.0))
    return dict(viol=viol, nontrivial=True, digest=digest_arrays(o1[:200], t1), transitions=6, validated=val)


# ------------------------------------------------------------------ interleavings
PAIRS = {
    "aero_aero": (dict(kind="aero", sym=True, comp=False, ground=True, visc=True, wave=True, ns=2), dict(kind="aero", sym=False, comp=True, ground=False, visc=True, wave=False, ns=1)),
    "aero_as": (dict(kind="aero", sym=True, comp=False, ground=False, visc=True, wave=True, ns=1), dict(kind="as", model="tube", sym=True, relief=True)),
    "same_twice": (dict(kind="as", model="wingbox", sym=True, relief=True), dict(kind="as", model="wingbox", sym=True, relief=True)),
    # same surface NAMES, different mesh sizes (a table keyed by surface name and shared between instances would be overwritten)
    "same_names_other_size": (dict(kind="aero", sym=True, comp=False, ground=False, visc=True, wave=False, ns=1, name="wing", size=[2, 3]), dict(kind="aero", sym=True, comp=False, ground=False, visc=True, wave=False, ns=1, name="wing", size=[3, 5])),
    # same size and names, opposite handedness (left half vs right half) and span type
    "left_vs_right": (dict(kind="struct", model="tube", sym=True, side="left", ny=4), dict(kind="struct", model="tube", sym=True, side="right", ny=4)),
    # same shapes and names, every scalar dictionary value different (another material, other coefficients)
    "struct_other_values": (dict(kind="struct", model="tube", sym=True, ny=4), dict(kind="struct", model="tube", sym=True, ny=4, alt=True)),
    "as_other_values": (dict(kind="as", model="wingbox", sym=True, relief=True), dict(kind="as", model="wingbox", sym=True, relief=True, alt=True)),
    "as_left_vs_right": (dict(kind="as", model="tube", sym=True, relief=True, side="left", ny=3), dict(kind="as", model="tube", sym=True, relief=True, side="right", ny=3)),
}


class Script:
    """one user's script: setup, run, totals, run"""

    OPS = ["setup", "run", "totals", "run"]

    def __init__(self, cfg, fam):
        self.cfg, self.fam, self.i, self.obs = cfg, fam, 0, []

    def step(self):
        op = self.OPS[self.i]
        self.i += 1
        if op == "setup":
            self.p, self.surfs, self.of, self.wrt = make_model(self.cfg, self.fam)
        elif op == "run":
            self.p.run_model()
            self.obs.append(all_outputs(self.p))
        else:
            T = self.p.compute_totals(of=self.of, wrt=self.wrt)
            self.obs.append(np.concatenate([np.asarray(T[o, w]).ravel() for o in self.of for w in self.wrt]))


_ISO = {}


def isolated(cfg, fam, ops=None):
    key = (repr(sorted(cfg.items())), fam, tuple(ops or Script.OPS))
    if key not in _ISO:
        sc = Script(cfg, fam)
        if ops:
            sc.OPS = list(ops)
        for _ in sc.OPS:
            sc.step()
        _ISO[key] = sc.obs
    return _ISO[key]


def compare_obs(viol, who, got, ref, sig):
    for k, (a, b) in enumerate(zip(got, ref)):
        if a.shape != b.shape or not np.array_equal(a, b):
            e = np.abs(a - b).max() / max(np.abs(b).max(), 1e-300) if a.shape == b.shape else np.inf
            viol.append(dict(sig=dict(oracle="interleaving_independent", problem=who, **sig), msg="problem %s: observation %d differs from its isolated execution by %.2e under this schedule" % (who, k, e), measure=float(e)))


def part_interleave(s):
    ca, cb = PAIRS[s["pair"]]
    A, B = Script(ca, s["fam"]), Script(cb, s["fam"])
    ref_a, ref_b = isolated(ca, s["fam"]), isolated(cb, s["fam"])
    slots = set(s["a_slots"])
    for t in range(8):
        (A if t in slots else B).step()
    viol = []
    compare_obs(viol, "A", A.obs, ref_a, dict(pair=s["pair"]))
    compare_obs(viol, "B", B.obs, ref_b, dict(pair=s["pair"]))
    return dict(viol=viol, nontrivial=True, digest="sched:%s:%s" % (s["pair"], "".join("A" if t in slots else "B" for t in range(8))), transitions=8, validated=6)


def part_interleave3(s):
    cfgs = [PAIRS["aero_aero"][0], PAIRS["aero_as"][1], PAIRS["aero_aero"][1]]
    ops = ["setup", "run"]
    scripts = []
    for c in cfgs:
        sc = Script(c, s["fam"])
        sc.OPS = list(ops) + ["totals"]
        scripts.append(sc)
    for who in s["order"]:
        scripts[who].step()
    for sc in scripts:
        sc.step()  # totals at the end, in problem order
    viol = []
    for k, (sc, c) in enumerate(zip(scripts, cfgs)):
        compare_obs(viol, "P%d" % k, sc.obs, isolated(c, s["fam"], ops + ["totals"]), dict(pair="three"))
    return dict(viol=viol, nontrivial=True, digest="sched3:%s" % "".join(map(str, s["order"])), transitions=9, validated=6)


FRESH_MENU = [
    dict(kind="struct", model="tube", sym=True, side="left", ny=4),
    dict(kind="struct", model="tube", sym=True, side="right", ny=4),
    dict(kind="struct", model="wingbox", sym=False, ny=5),
    dict(kind="aero", sym=True, comp=False, ground=True, visc=True, wave=True, ns=1, name="wing", size=[2, 3]),
    dict(kind="aero", sym=True, comp=True, ground=False, visc=True, wave=False, ns=1, name="wing", size=[3, 4], side="right"),
    dict(kind="as", model="tube", sym=True, relief=True, side="left", ny=3),
    dict(kind="as", model="tube", sym=True, relief=True, side="right", ny=3),
    # same names and shapes, every dictionary value different (material, coefficients, wingbox section data)
    dict(kind="as", model="wingbox", sym=True, relief=True),
    dict(kind="as", model="wingbox", sym=True, relief=True, alt=True),
    dict(kind="struct", model="tube", sym=True, side="left", ny=4, alt=True),
]
_FRESH = {}


def fresh_digest(cfgs, fam):
    import json
    import os
    import subprocess
    import sys

    key = (json.dumps(cfgs, sort_keys=True), fam)
    if key not in _FRESH:
        env = dict(os.environ)
        job = dict(cfgs, fam=fam) if isinstance(cfgs, dict) else dict(cfgs=cfgs, fam=fam)
        r = subprocess.run([sys.executable, "-W", "ignore", "-m", "oasmc.pairjob", json.dumps(job)], capture_output=True, text=True, env=env, cwd=os.getcwd())
        line = [ln for ln in r.stdout.splitlines() if ln.startswith("DIGEST ")]
        if r.returncode != 0 or not line:
            _FRESH[key] = ("ERROR", (r.stderr or r.stdout)[-600:])
        else:
            _FRESH[key] = (line[0].split()[1], line[0].split(" ", 2)[2])
    return _FRESH[key]


def part_fresh(s):
    A, B = FRESH_MENU[s["a"]], FRESH_MENU[s["b"]]
    alone = fresh_digest([B], s["fam"])
    after = fresh_digest([A, B], s["fam"])
    viol = []
    if alone[0] == "ERROR":
        raise RuntimeError("fresh-process job failed for the single configuration %s: %s" % (B, alone[1]))
    if after[0] == "ERROR":
        viol.append(dict(sig=dict(oracle="fresh_process_pair", kind="exception", b=s["b"]), msg="configuration %d fails when built after configuration %d in a fresh process: %s" % (s["b"], s["a"], after[1][-200:]), measure=1.0))
    elif after[0] != alone[0]:
        viol.append(dict(sig=dict(oracle="fresh_process_pair", kind="different_results", b=s["b"]), msg="configuration %d gives different results when configuration %d was built before it in the same (fresh) process: magnitudes %s vs alone %s" % (s["b"], s["a"], after[1], alone[1]), measure=1.0))
    return dict(viol=viol, nontrivial=True, digest="fresh:%d:%d:%s" % (s["a"], s["b"], after[0][:8]), transitions=6, validated=1)
