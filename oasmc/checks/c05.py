"""C05 - the VLM solution satisfies flow tangency and matches an independent Biot-Savart solver."""
import itertools

import numpy as np

from oasmc import builders, gen
from oasmc.engine import digest_arrays
from oasmc.ref import ref_vlm

ID = "C05"
RULE = (
    "complete Cartesian product of surface-set x planform x (nx,ny) x side x alpha x beta x omega x (v,rho); "
    "each state builds a real AeroPoint and an independent Biot-Savart solution of the same full-span geometry; "
    "non-trivial = the reference circulation vector is non-zero and distinct (state, outcome digest)"
)
ASSUMPTIONS = [
    "finite alphabets for the real-valued inputs (see axes, both signs of alpha and beta); shapes nx<=4, ny<=7, <=3 surfaces (identical and mixed shapes) exhaustively, six production-size lattices (nx<=10, ny<=41) in addition; C-wing tips folded to 120 deg, surfaces stored from +y to -y, surfaces at incidence",
    "reference solver oasmc/ref/ref_vlm.py (self-tested against Biot-Savart quadrature) is correct",
    "OpenMDAO, NumPy, SciPy trusted",
]
BOUND = {"quick": "<=3 surfaces, nx<=3 (+ one planform with nx=4), half ny<=3 / full ny<=5; plus six production-size lattice sets (nx<=10, ny<=41, <=128 panels per surface, 1-3 surfaces) at one generic flow each", "thorough": "<=3 surfaces, nx<=4, half ny<=4 / full ny<=7; plus the six production-size lattice sets under the complete flow product"}
TOL = 1e-9

OMEGA_FULL = [0.1, -0.2, 0.3]
OMEGA_SYM = [0.0, 0.2, 0.0]
CG = [0.5, 0.0, -0.2]
CG_FULL = [0.5, 0.1, -0.2]


def surf_sets(tier):
    """list of lists of surface specs (pf, nx, ny, side, offset)"""
    out = []
    nxs = [2, 3] if tier == "quick" else [2, 3, 4]
    pfs = ["rect", "swept", "twdi", "camber"] + ([] if tier == "quick" else ["crm"])
    sides = [("left", 3), ("right", 3), ("full", 5)] if tier == "quick" else [("left", 3), ("left", 4), ("right", 3), ("right", 2), ("full", 5), ("full", 7), ("full", 3)]
    for pf in pfs:
        for nx in nxs:
            if pf == "camber" and nx < 3:
                continue
            for side, ny in sides:
                out.append([dict(pf=pf, nx=nx, ny=ny, side=side, off=None)])
    if tier == "quick":
        # nx = 4 is the smallest mesh with an interior chordwise panel row
        for side, ny in sides:
            out.append([dict(pf="twdi", nx=4, ny=ny, side=side, off=None)])
    # two surfaces of different sizes (offset bookkeeping), incl. symmetric wing + full-span symmetric tail
    two = [
        [dict(pf="swept", nx=3, ny=3, side="left", off=None), dict(pf="rect", nx=2, ny=2, side="left", off=[5.0, 0.0, 0.7], span=3.0, chord=0.8)],
        [dict(pf="twdi", nx=2, ny=3, side="right", off=None), dict(pf="swept", nx=3, ny=2, side="right", off=[5.0, 0.0, 0.7], span=3.0, chord=0.8)],
        [dict(pf="swept", nx=3, ny=5, side="full", off=None), dict(pf="rect", nx=2, ny=3, side="full", off=[5.0, 0.3, 0.7], span=3.0, chord=0.8)],
        [dict(pf="camber", nx=3, ny=3, side="left", off=None), dict(pf="rect", nx=2, ny=3, side="fullsym", off=[5.0, 0.0, 0.7], span=3.0, chord=0.8)],
        [dict(pf="rect", nx=2, ny=3, side="fullsym", off=[-4.0, 0.0, 0.3], span=3.0, chord=0.8), dict(pf="twdi", nx=3, ny=3, side="right", off=None)],
    ]
    out += two
    # symmetric surfaces of DIFFERENT handedness in one list (wing modelled by its left half, tail by its right half, and the
    # reverse; three surfaces left / right / full): the handedness is a property of each surface, not of the model
    out += [
        [dict(pf="swept", nx=3, ny=3, side="left", off=None), dict(pf="rect", nx=2, ny=3, side="right", off=[5.0, 0.0, 0.7], span=3.0, chord=0.8)],
        [dict(pf="twdi", nx=3, ny=3, side="right", off=None), dict(pf="rect", nx=2, ny=2, side="left", off=[5.0, 0.0, 0.7], span=3.0, chord=0.8)],
        [dict(pf="twdi", nx=2, ny=3, side="left", off=None), dict(pf="swept", nx=3, ny=3, side="right", off=[5.0, 0.0, 0.7], span=3.0, chord=0.8), dict(pf="rect", nx=2, ny=3, side="fullsym", off=[-4.0, 0.0, 0.3], span=3.0, chord=0.8)],
        [dict(pf="twdi", nx=2, ny=3, side="right", off=None), dict(pf="rect", nx=2, ny=3, side="fullsym", off=[-4.0, 0.0, 0.3], span=3.0, chord=0.8), dict(pf="swept", nx=3, ny=3, side="left", off=[5.0, 0.0, 0.7], span=3.0, chord=0.8)],
    ]
    # two and three surfaces of IDENTICAL mesh shape (anything keyed on the shape would be shared between them)
    out += [
        [dict(pf="swept", nx=3, ny=3, side="left", off=None), dict(pf="twdi", nx=3, ny=3, side="left", off=[5.0, 0.0, 0.7], span=3.0, chord=0.8)],
        [dict(pf="swept", nx=2, ny=5, side="full", off=None), dict(pf="rect", nx=2, ny=5, side="full", off=[5.0, 0.3, 0.7], span=3.0, chord=0.8), dict(pf="twdi", nx=2, ny=5, side="full", off=[-3.0, -0.2, -0.5], span=5.0, chord=1.0)],
    ]
    # surface parts folded past the vertical (C-wing tip strips, local dihedral 120 deg) and a full-span surface stored from +y to -y
    out += [
        [dict(pf="twdi", nx=3, ny=5, side="full", off=None, fold=120.0)],
        [dict(pf="swept", nx=2, ny=4, side="left", off=None, fold=120.0)],
        [dict(pf="twdi", nx=3, ny=5, side="full", off=None, rev=True)],
        [dict(pf="camber", nx=3, ny=5, side="full", off=None, rev=True), dict(pf="rect", nx=2, ny=3, side="full", off=[5.0, 0.3, 0.7], span=3.0, chord=0.8)],
    ]
    # three surfaces of mixed sizes, the larger chordwise counts in the LAST slots (offset bookkeeping beyond the second surface)
    out += [
        [dict(pf="rect", nx=2, ny=3, side="full", off=None), dict(pf="swept", nx=2, ny=3, side="full", off=[5.0, 0.3, 0.7], span=3.0, chord=0.8), dict(pf="camber", nx=3, ny=5, side="full", off=[-3.0, -0.2, -0.5], span=5.0, chord=1.0)],
        [dict(pf="swept", nx=2, ny=2, side="left", off=None), dict(pf="rect", nx=3, ny=2, side="left", off=[5.0, 0.0, 0.7], span=3.0, chord=0.8), dict(pf="twdi", nx=3, ny=3, side="left", off=[-3.0, 0.0, -0.5], span=5.0, chord=1.0)],
    ]
    if tier == "thorough":
        out += [
            [dict(pf="swept", nx=2, ny=3, side="left", off=None), dict(pf="rect", nx=3, ny=2, side="left", off=[5.0, 0.0, 0.7], span=3.0, chord=0.8), dict(pf="twdi", nx=2, ny=4, side="left", off=[-3.0, 0.0, -0.5], span=5.0, chord=1.0)],
            [dict(pf="swept", nx=3, ny=3, side="full", off=None), dict(pf="rect", nx=2, ny=5, side="full", off=[5.0, 0.3, 0.7], span=3.0, chord=0.8), dict(pf="camber", nx=3, ny=3, side="full", off=[-3.0, -0.2, -0.5], span=5.0, chord=1.0)],
            [dict(pf="twdi", nx=4, ny=2, side="right", off=None), dict(pf="rect", nx=2, ny=3, side="right", off=[5.0, 0.0, 0.7], span=3.0, chord=0.8), dict(pf="rect", nx=2, ny=3, side="fullsym", off=[9.0, 0.0, 1.5], span=2.0, chord=0.5)],
            [dict(pf="camber", nx=4, ny=4, side="left", off=None), dict(pf="swept", nx=2, ny=3, side="right", off=[5.0, 0.0, 0.7], span=3.0, chord=0.8)],
        ]
    return out


def big_sets():
    """production-size lattices (index arithmetic and block offsets beyond the small shapes): up to 128 panels on one
    surface, nx up to 10, ny up to 41, two and three surfaces with every chordwise count different"""
    return [
        [dict(pf="crm", nx=9, ny=17, side="full", off=None)],
        [dict(pf="swept", nx=7, ny=12, side="left", off=None)],
        [dict(pf="camber", nx=10, ny=3, side="left", off=None)],
        [dict(pf="twdi", nx=2, ny=41, side="full", off=None)],
        [dict(pf="twdi", nx=6, ny=11, side="right", off=None), dict(pf="rect", nx=5, ny=9, side="fullsym", off=[5.0, 0.0, 0.7], span=3.0, chord=0.8)],
        [dict(pf="swept", nx=5, ny=9, side="full", off=None), dict(pf="rect", nx=4, ny=7, side="full", off=[5.0, 0.3, 0.7], span=3.0, chord=0.8), dict(pf="camber", nx=6, ny=9, side="full", off=[-3.0, -0.2, -0.5], span=5.0, chord=1.0)],
    ]


def states(tier, seed):
    fam = seed % 3
    alphas = [0.0, 5.0, -3.0] if tier == "quick" else [0.0, 5.0, -3.0, 15.0, -15.0]
    betas = [0.0, 4.0, -6.0] if tier == "quick" else [0.0, 4.0, -10.0, 15.0]
    vr = [(10.0, 1.225), (248.0, 0.38)]
    st = []
    inadm = 0
    for ss in surf_sets(tier):
        anysym = any(s["side"] in ("left", "right") for s in ss)
        for alpha, beta, rot, (v, rho) in itertools.product(alphas, betas, [False, True], vr):
            if anysym and beta != 0.0:
                inadm += 1
                continue
            st.append(dict(surfs=ss, alpha=alpha, beta=beta, rot=rot, v=v, rho=rho, fam=fam))
    # production-size lattices: quick = one generic flow per set (with and without rotation, sideslip where admissible),
    # thorough = the complete flow product as above
    for ss in big_sets():
        anysym = any(s["side"] in ("left", "right") for s in ss)
        if tier == "quick":
            flows = [(5.0, 0.0 if anysym else 4.0, rot, 248.0, 0.38) for rot in (False, True)]
        else:
            flows = [(a, b, r, v, rho) for a, b, r, (v, rho) in itertools.product(alphas, betas, [False, True], vr) if not (anysym and b != 0.0)]
        for alpha, beta, rot, v, rho in flows:
            st.append(dict(surfs=ss, alpha=alpha, beta=beta, rot=rot, v=v, rho=rho, fam=fam))
    return st, inadm


def mesh_of(spec, fam):
    m, sym = _mesh_of(spec, fam)
    if spec.get("pitch"):
        # incidence of the whole surface: rotation about the spanwise axis through its first leading-edge node
        th = np.radians(spec["pitch"])
        x0, z0 = m[0, 0, 0], m[0, 0, 2]
        dx, dz = m[:, :, 0] - x0, m[:, :, 2] - z0
        m = m.copy()
        m[:, :, 0] = x0 + dx * np.cos(th) + dz * np.sin(th)
        m[:, :, 2] = z0 - dx * np.sin(th) + dz * np.cos(th)
    if spec.get("fold"):
        # C-wing: the outermost panel strip of each tip folded past the vertical (inward-canted, 'fold' degrees of local dihedral)
        m = m.copy()
        th = np.radians(spec["fold"])
        for tip, hinge, sgn in ((0, 1, -1.0), (m.shape[1] - 1, m.shape[1] - 2, 1.0)):
            if (sym and tip != (0 if spec["side"] == "left" else m.shape[1] - 1)):
                continue
            d = m[:, tip] - m[:, hinge]
            L = np.hypot(d[:, 1], d[:, 2])
            m[:, tip, 1] = m[:, hinge, 1] + sgn * L * np.cos(th)
            m[:, tip, 2] = m[:, hinge, 2] + L * np.sin(th)
    if spec.get("rev"):
        # the same full-span surface with its spanwise node order reversed (stored from +y to -y)
        m = m[:, ::-1].copy()
    return m, sym


def _mesh_of(spec, fam):
    side = spec["side"]
    kw = {}
    if "span" in spec:
        kw = dict(span=spec["span"], chord=spec["chord"])
    if side == "fullsym":
        return gen.make_mesh(spec["pf"], spec["nx"], spec["ny"], "full", fam, asym=False, offset=spec["off"], **kw), False
    if side == "full":
        return gen.make_mesh(spec["pf"], spec["nx"], spec["ny"], "full", fam, asym=True, offset=spec["off"], **kw), False
    return gen.make_mesh(spec["pf"], spec["nx"], spec["ny"], side, fam, offset=spec["off"], **kw), True


def full_of(mesh, side):
    """full-span mesh of a symmetric half (built by the harness, not by OAS)"""
    mir = gen.mirror_mesh(mesh)
    if side == "left":
        return np.concatenate([mesh, mir[:, 1:]], axis=1)
    return np.concatenate([mir[:, :-1], mesh], axis=1)


def run_state(s):
    fam = s["fam"]
    surfs, fulls, info = [], [], []
    anysym = False
    for k, spec in enumerate(s["surfs"]):
        m, sym = mesh_of(spec, fam)
        anysym |= sym
        surfs.append(builders.aero_surface("s%d" % k, m, sym))
        fulls.append(full_of(m, spec["side"]) if sym else m)
        info.append((spec["side"], m.shape))
    omega = None
    cg = CG_FULL
    if anysym:
        cg = CG
    if s["rot"]:
        omega = OMEGA_SYM if anysym else OMEGA_FULL
    flow = dict(v=s["v"], alpha=s["alpha"], beta=s["beta"], rho=s["rho"], cg=cg)
    if omega is not None:
        flow["omega"] = omega
    p = builders.build_aero(surfs, flow, rotational=omega is not None)
    p.run_model()
    ref = ref_vlm.solve(fulls, s["alpha"], s["beta"], s["v"], s["rho"], omega=omega, cg=cg)

    viol = []
    validated = 0

    def cmp(name, a, b, scale=None, where=None):
        nonlocal validated
        validated += 1
        a = np.asarray(a, float)
        b = np.asarray(b, float)
        sc = scale if scale is not None else max(np.abs(b).max(), 1e-300)
        if a.shape != b.shape or not np.all(np.isfinite(a)):
            viol.append(dict(sig=dict(oracle="ref_vlm", observable=name, kind="shape_or_nonfinite"), msg="%s: shape %s vs %s / non-finite" % (name, a.shape, b.shape), measure=float("inf")))
            return
        e = np.abs(a - b).max() / sc
        if e > TOL:
            viol.append(dict(sig=dict(oracle="ref_vlm", observable=name, **(where or {})), msg="%s differs from the independent solver by %.3e (rel.)" % (name, e), measure=float(e)))

    # index maps half -> full panel numbering
    idx_half, idx_mirror = [], []
    o = 0
    for (side, shp), fm in zip(info, fulls):
        nxp, nyp_full = fm.shape[0] - 1, fm.shape[1] - 1
        full_idx = o + np.arange(nxp * nyp_full).reshape(nxp, nyp_full)
        if side in ("left", "right"):
            nyp = shp[1] - 1
            own = full_idx[:, :nyp] if side == "left" else full_idx[:, nyp:]
            mir = full_idx[:, ::-1][:, :nyp] if side == "left" else full_idx[:, ::-1][:, nyp:]
            idx_half.append(own.ravel())
            idx_mirror.append(mir.ravel())
        else:
            idx_half.append(full_idx.ravel())
            idx_mirror.append(None)
        o += nxp * nyp_full
    own = np.concatenate(idx_half)
    A_ref = ref["A"][np.ix_(own, own)].copy()
    col = 0
    for ih, im in zip(idx_half, idx_mirror):
        if im is not None:
            A_ref[:, col : col + len(ih)] += ref["A"][np.ix_(own, im)]
        col += len(ih)
    wh = dict(nsurf=len(surfs), anysym=anysym)
    cmp("mtx", p["ap.aero_states.mtx"], A_ref, where=wh)
    cmp("rhs", p["ap.aero_states.rhs"], ref["rhs"][own], scale=s["v"], where=wh)
    circ = p["ap.circulations"]
    Gscale = max(np.abs(ref["G"]).max(), 1e-8 * s["v"])
    cmp("circulations", circ, ref["G"][own], scale=Gscale, where=wh)
    Fscale = max(np.abs(ref["Fflat"]).max(), gen.force_floor(s["rho"], s["v"], fulls))
    for k, (ih, srf) in enumerate(zip(idx_half, surfs)):
        F = p["ap.aero_states.s%d_sec_forces" % k].reshape(-1, 3)
        cmp("sec_forces", F, ref["Fflat"][ih], scale=Fscale, where=dict(wh, surf=k))
    cmp("force_pts_velocities", p["ap.aero_states.force_pts_velocities"], (ref["onset"] + ref["vind_fp"])[own], scale=s["v"], where=wh)

    # tangency with OAS's OWN circulations and the reference's induced velocities
    Gfull = np.zeros(len(ref["G"]))
    col = 0
    for ih, im in zip(idx_half, idx_mirror):
        g = circ[col : col + len(ih)]
        Gfull[ih] = g
        if im is not None:
            Gfull[im] = g
        col += len(ih)
    vn = ref_vlm.normal_velocity(fulls, Gfull, s["alpha"], s["beta"], s["v"], omega=omega, cg=cg)
    validated += 1
    e = np.abs(vn).max() / s["v"]
    if not e <= TOL:
        viol.append(dict(sig=dict(oracle="tangency", observable="normal_velocity", **wh), msg="normal velocity at a collocation point is %.3e of v" % e, measure=float(e)))

    # Kutta-Joukowski from OAS's own intermediate outputs
    hs = p["ap.aero_states.horseshoe_circulations"]
    vel = p["ap.aero_states.force_pts_velocities"]
    bvec = p["ap.aero_states.bound_vecs"]
    Fkj = s["rho"] * hs[:, None] * np.cross(vel, bvec)
    Foas = np.concatenate([p["ap.aero_states.s%d_sec_forces" % k].reshape(-1, 3) for k in range(len(surfs))])
    cmp("kutta_joukowski", Foas, Fkj, scale=Fscale, where=wh)
    cmp("horseshoe_circulations", hs, ref["Ghs"][own], scale=Gscale, where=wh)
    cmp("bound_vecs", bvec, ref["bv"][own], where=wh)

    return dict(
        viol=viol,
        nontrivial=bool(np.abs(ref["G"]).max() > 0),
        digest=digest_arrays(circ, Foas),
        transitions=2,
        validated=validated,
    )
