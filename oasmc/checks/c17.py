"""C17 - performance and flight-condition functionals satisfy their defining identities."""
import itertools

import numpy as np
import openmdao.api as om

from oasmc import builders, gen
from oasmc.engine import digest_arrays

ID = "C17"
RULE = (
    "part perf: complete product number of surfaces x symmetry x user/summed S_ref x value alphabets (coefficients, masses, flight condition) "
    "on the real TotalPerformance group, identities evaluated by the harness from the group's INPUTS; part lw: inputs constructed so that "
    "L = W exactly; part atmos: every tabulated altitude, every mid-point and h+-1 ft x Mach on the real AtmosGroup against ideal-gas "
    "relations; part cmgroup: CM and M through AeroPoint / AerostructPoint (two surfaces) against the harness's sum of panel-force moments about the cg "
    "and the first surface's MAC; non-trivial = distinct input tuples"
)
ASSUMPTIONS = ["finite value alphabets", "ideal gas R = 1716.49 ft lbf/(slug R), gamma = 1.4; the tabulated standard atmosphere is consistent with them to 2e-3", "OpenMDAO/NumPy trusted"]
BOUND = {"quick": "1-3 surfaces x 4 symmetry patterns (all full, all half, mixed full-first / half-first) x 3 values per input group", "thorough": "more value tuples"}
G0 = 9.80665
TOL = 1e-11


def states(tier, seed):
    fam = seed % 3
    st = []
    flights = [(0.38, 248.0, 1.0), (1.225, 60.0, 2.5), (0.9, 120.0, -1.0)]
    perf = [(11.165e6, 9.80665 * 17.0e-6, 295.4, 0.84), (2.0e6, 2.0e-4, 340.0, 0.3), (5.0e5, 1.0e-4, 200.0, 0.6)]
    # symmetry: all full-span, all half-span, or mixed ("fs": full-span first, then alternating; "sf": half-span first)
    for ns, sym, usr, fl, pf, k in itertools.product([1, 2, 3], [False, True, "fs", "sf"], [False, True], flights, perf, [0, 1, 2] if tier == "quick" else [0, 1, 2, 3, 4]):
        if ns == 1 and sym in ("fs", "sf"):
            continue
        st.append(dict(part="perf", ns=ns, sym=sym, user_sref=usr, flight=list(fl), perf=list(pf), k=k, fam=fam))
        if k == 0 and sym in (True, "fs"):
            # the multipoint option: the fuel burn that sizes the weight comes from ANOTHER flight point (connected by the user)
            st.append(dict(part="perf", ns=ns, sym=sym, user_sref=usr, flight=list(fl), perf=list(pf), k=k, xfb=1234.5, fam=fam))
    for ns, sym, k in itertools.product([1, 2, 3], [False, True], [0, 1, 2]):
        st.append(dict(part="lw", ns=ns, sym=sym, k=k, fam=fam))
    # CM through the public groups: first surface cambered with nx >= 3 (camber-line length != chord), second surface flat
    for grp, sym, pf, nx in itertools.product(["AeroPoint", "AerostructPoint"], [False, True], ["camber", "twdi"], [3, 4]):
        st.append(dict(part="cmgroup", group=grp, sym=sym, pf=pf, nx=nx, fam=fam))
    alts = list(range(-1000, 150001, 1000))
    pts = []
    for a in alts:
        pts += [a, a + 500]
        if a > -1000:
            pts += [a - 1, a + 1]
    pts = sorted(set(x for x in pts if -1000 <= x <= 150000))
    for h in pts:
        for M in (0.3, 0.84):
            st.append(dict(part="atmos", h=float(h), M=M, fam=fam))
    return st, 0


def run_state(s):
    return globals()["part_" + s["part"]](s)


def sym_of(sym, i):
    if sym == "fs":
        return i % 2 == 1
    if sym == "sf":
        return i % 2 == 0
    return bool(sym)


def perf_problem(s, W0=None):
    from openaerostruct.functionals.total_performance import TotalPerformance

    ns, fam, k = s["ns"], s["fam"], s["k"]
    surfs = []
    vals = {}
    for i in range(ns):
        sym = sym_of(s["sym"], i)
        nx, ny = (2, 3) if i != 1 else (3, 4)
        m = gen.make_mesh("swept", nx, ny, "left" if sym else "full", fam, asym=not sym, offset=[4.0 * i, 0, 0.3 * i]) if (sym or ny % 2) else gen.make_mesh("swept", nx, ny + 1, "full", fam, asym=True, offset=[4.0 * i, 0, 0.3 * i])
        ny = m.shape[1]
        n = "s%d" % i
        surfs.append(builders.aero_surface(n, m, sym))
        j = 7 * i + 3 * k
        vals[n + "_CL"] = float(gen.gen((), j, 0.2, 0.7, fam))
        vals[n + "_CD"] = float(gen.gen((), j + 1, 0.01, 0.05, fam))
        if i == 1 and k % 2 == 1:
            # a down-loaded second surface in the first one's downwash: negative lift and (induced) drag coefficients
            vals[n + "_CL"], vals[n + "_CD"] = -0.3 * vals[n + "_CL"], -0.1 * vals[n + "_CD"]
        vals[n + "_S_ref"] = float(gen.gen((), j + 2, 5.0, 30.0, fam))
        vals[n + "_structural_mass"] = float(gen.gen((), j + 3, 200.0, 3000.0, fam))
        vals[n + "_cg_location"] = gen.gen((3,), j + 4, -1.0, 4.0, fam)
        bp = 0.75 * m[:-1] + 0.25 * m[1:]
        vals[n + "_b_pts"] = bp
        vals[n + "_widths"] = np.abs(np.diff(bp[0, :, 1]))
        vals[n + "_chords"] = m[-1, :, 0] - m[0, :, 0]
        vals[n + "_sec_forces"] = gen.gen((nx - 1, ny - 1, 3), j + 5, -300.0, 900.0, fam)
    rho, v, nfac = s.get("flight", [0.38, 248.0, 1.0])
    R, CT, a, M = s.get("perf", [11.165e6, 9.80665 * 17.0e-6, 295.4, 0.84])
    vals.update(rho=rho, v=v, load_factor=nfac, R=R, CT=CT, speed_of_sound=a, Mach_number=M, W0=float(gen.gen((), 40 + k, 1e3, 1e5, fam)) if W0 is None else W0, empty_cg=gen.gen((3,), 41 + k, -1.0, 3.0, fam))
    usr = s.get("user_sref", False)
    if usr:
        vals["S_ref_total"] = 77.7
    p = om.Problem(reports=False)
    ivc = om.IndepVarComp()
    for kk, vv in vals.items():
        ivc.add_output(kk, val=vv)
    p.model.add_subsystem("ivc", ivc, promotes=["*"])
    xfb = s.get("xfb")
    if xfb is None:
        p.model.add_subsystem("tp", TotalPerformance(surfaces=surfs, user_specified_Sref=usr), promotes=["*"])
    else:
        ivc.add_output("fuelburn_other_point", val=xfb, units="kg")
        vals["fuelburn_other_point"] = xfb
        p.model.add_subsystem("tp", TotalPerformance(surfaces=surfs, user_specified_Sref=usr, internally_connect_fuelburn=False), promotes=["*"])
        p.model.connect("fuelburn_other_point", ["L_equals_W.fuelburn", "CG.fuelburn"])
    p.setup()
    return p, surfs, vals


def identities(p, surfs, vals, sym, usr):
    ns = len(surfs)
    S = [vals["s%d_S_ref" % i] for i in range(ns)]
    St = vals["S_ref_total"] if usr else sum(S)
    q = 0.5 * vals["rho"] * vals["v"] ** 2
    clS = sum(vals["s%d_CL" % i] * S[i] for i in range(ns))
    cdS = sum(vals["s%d_CD" % i] * S[i] for i in range(ns))
    ms = sum(vals["s%d_structural_mass" % i] for i in range(ns))
    CL, CD = clS / St, cdS / St
    fb = (vals["W0"] + ms) * (np.exp(vals["R"] * vals["CT"] / vals["speed_of_sound"] / vals["Mach_number"] * CD / CL) - 1)
    W = (ms + vals.get("fuelburn_other_point", fb) + vals["W0"]) * G0 * vals["load_factor"]
    cg = (vals["W0"] * vals["empty_cg"] + sum(vals["s%d_structural_mass" % i] * vals["s%d_cg_location" % i] for i in range(ns))) / (vals["W0"] + ms)
    Mcg = np.zeros(3)
    for i in range(ns):
        bp = vals["s%d_b_pts" % i]
        pts = 0.5 * (bp[:, 1:] + bp[:, :-1])
        mom = np.cross(pts - cg, vals["s%d_sec_forces" % i]).reshape(-1, 3).sum(axis=0)
        if sym_of(sym, i):
            mom = np.array([0.0, 2 * mom[1], 0.0])
        Mcg += mom
    ch = vals["s0_chords"]
    mac = np.sum((0.5 * (ch[1:] + ch[:-1])) ** 2 * vals["s0_widths"]) / S[0] * (2.0 if sym_of(sym, 0) else 1.0)
    return dict(S_ref_total=St, CL=CL, CD=CD, L=q * clS, D=q * cdS, fuelburn=fb, total_weight=W, L_equals_W=1 - q * St * CL / W, cg=cg, M=Mcg, CM=Mcg / (q * St * mac))


def part_perf(s):
    p, surfs, vals = perf_problem(s)
    p.run_model()
    want = identities(p, surfs, vals, s["sym"], s["user_sref"])
    viol, val = [], 0
    got = dict(CL=p["CL"], CD=p["CD"], L=p["L"], D=p["D"], fuelburn=p["fuelburn"], total_weight=p["total_weight"], L_equals_W=p["L_equals_W"], cg=p["cg"], M=p["moment.M"], CM=p["CM"])
    if not s["user_sref"]:
        got["S_ref_total"] = p["S_ref_total"]
    for k, g in got.items():
        val += 1
        w = np.atleast_1d(want[k])
        g = np.atleast_1d(g).ravel()
        sc = max(np.abs(w).max(), 1e-3 if k in ("L_equals_W",) else 1e-300)
        e = np.abs(g - w).max() / sc
        if not e <= TOL:
            viol.append(dict(sig=dict(oracle="defining_identity", observable=k, sym=s["sym"], user_sref=s["user_sref"]), msg="%s = %s but the defining identity gives %s (rel %.2e)" % (k, np.array2string(g, precision=10), np.array2string(w, precision=10), e), measure=float(e)))
    return dict(viol=viol, nontrivial=True, digest=digest_arrays(*[np.atleast_1d(v) for v in got.values()]), transitions=1, validated=val)


def part_cmgroup(s):
    fam, sym = s["fam"], s["sym"]
    side = "left" if sym else "full"
    m = gen.make_mesh(s["pf"], s["nx"], 3 if sym else 5, side, fam, asym=not sym, span=10.0, chord=1.6)
    if s["pf"] == "camber":
        xi = np.linspace(0, 1, s["nx"])[:, None]
        m[:, :, 2] += 0.1 * 4 * xi * (1 - xi) * (m[-1, :, 0] - m[0, :, 0])[None, :]  # 10 % extra camber
    m2 = gen.make_mesh("rect", 2, 2 if sym else 3, side, fam, span=3.0, chord=0.8, offset=[6.0, 0.0, 0.7])
    rho, v = 0.9, 100.0
    if s["group"] == "AeroPoint":
        p = builders.build_aero([builders.aero_surface("wing", m, sym), builders.aero_surface("tail", m2, sym)], dict(v=v, alpha=4.0, rho=rho, cg=[0.5, 0.0, 0.1]))
        p.run_model()
        pre, mesh1 = "ap.", m
        Sn = ["ap.wing.S_ref", "ap.tail.S_ref"]
        wn = "ap.wing.widths"
        Fn, Bn, cg = "ap.aero_states.%s_sec_forces", "ap.%s.b_pts", np.array([0.5, 0.0, 0.1])
    else:
        s1 = builders.struct_surface("wing", m, sym, "tube", with_viscous=True)
        s2 = builders.struct_surface("tail", m2, sym, "tube", with_viscous=True, thickness_cp=np.array([0.01, 0.012]))
        p = builders.build_aerostruct([s1, s2], dict(Mach_number=0.5, W0=2.0e3, v=v, rho=rho, alpha=4.0, speed_of_sound=200.0, R=2.0e6, load_factor=1.0))
        builders.tighten(p, nl="default", lin="default")
        p.run_model()
        pre, mesh1 = "AS_point_0.", np.array(p["AS_point_0.coupled.wing.def_mesh"])
        Sn = ["AS_point_0.coupled.wing.S_ref", "AS_point_0.coupled.tail.S_ref"]
        wn = "AS_point_0.coupled.wing.widths"
        Fn, Bn, cg = "AS_point_0.coupled.aero_states.%s_sec_forces", "AS_point_0.coupled.%s.b_pts", np.array(p["AS_point_0.cg"])
    S = [float(p[n][0]) for n in Sn]
    ch = np.linalg.norm(mesh1[-1] - mesh1[0], axis=1)  # straight leading-edge to trailing-edge distance
    w = np.array(p[wn])
    mac = np.sum((0.5 * (ch[1:] + ch[:-1])) ** 2 * w) / S[0] * (2.0 if sym else 1.0)
    M = np.array(p[pre + "total_perf.moment.M"])
    want = M / (0.5 * rho * v * v * sum(S) * mac)
    got = np.array(p[pre + "CM"])
    e = np.abs(got - want).max() / max(np.abs(want).max(), 1e-12)
    viol = []
    # the moment itself: panel forces of every surface at the mid points of its bound vortices (of the analysed, deformed lattice), about the cg
    Mh = np.zeros(3)
    for n in ("wing", "tail"):
        F, B = np.array(p[Fn % n]), np.array(p[Bn % n])
        Ms = np.cross(0.5 * (B[:, 1:] + B[:, :-1]) - cg, F).sum(axis=(0, 1))
        if sym:
            Ms = np.array([0.0, 2.0 * Ms[1], 0.0])
        Mh += Ms
    e2 = np.abs(M - Mh).max() / max(np.abs(Mh).max(), 1e-12)
    if not e2 <= 1e-10:
        viol.append(dict(sig=dict(oracle="defining_identity", observable="M", group=s["group"], through_group=True), msg="%s: M = %s but the panel forces of all surfaces about the cg give %s (rel %.2e)" % (s["group"], np.array2string(M, precision=8), np.array2string(Mh, precision=8), e2), measure=float(e2)))
    if not e <= 1e-10:
        viol.append(dict(sig=dict(oracle="defining_identity", observable="CM", group=s["group"], through_group=True), msg="%s: CM = %s but M / (q S_ref_total MAC of the first surface) = %s (rel %.2e)" % (s["group"], np.array2string(got, precision=8), np.array2string(want, precision=8), e), measure=float(e)))
    return dict(viol=viol, nontrivial=bool(np.abs(M).max() > 1e-6), digest=digest_arrays(got), transitions=1, validated=1)


def part_lw(s):
    """inputs constructed so that lift equals weight: the residual must vanish"""
    s = dict(s, user_sref=False)
    p, surfs, vals = perf_problem(s)
    ns = s["ns"]
    S = [vals["s%d_S_ref" % i] for i in range(ns)]
    q = 0.5 * vals["rho"] * vals["v"] ** 2
    clS = sum(vals["s%d_CL" % i] * S[i] for i in range(ns))
    cdS = sum(vals["s%d_CD" % i] * S[i] for i in range(ns))
    ms = sum(vals["s%d_structural_mass" % i] for i in range(ns))
    e_ = np.exp(vals["R"] * vals["CT"] / vals["speed_of_sound"] / vals["Mach_number"] * cdS / clS)
    # make the lift large enough for a positive W0: scale speed
    L = q * clS
    need = 2.0 * ms * e_ * G0 * vals["load_factor"]
    if L < need:
        f = np.sqrt(need / L) * 1.1
        vals["v"] *= f
        p.set_val("v", vals["v"])
        L *= f * f
    W0 = L / (e_ * G0 * vals["load_factor"]) - ms
    p.set_val("W0", W0)
    p.run_model()
    viol = []
    r = p["L_equals_W"][0]
    if not abs(r) <= 1e-12:
        viol.append(dict(sig=dict(oracle="lift_equals_weight_zero", observable="L_equals_W"), msg="inputs with L = W give residual %.3e" % r, measure=float(abs(r))))
    e = abs(p["L"][0] - p["total_weight"][0]) / L
    if not e <= 1e-12:
        viol.append(dict(sig=dict(oracle="lift_equals_weight_zero", observable="L-total_weight"), msg="L %.10g vs W %.10g" % (p["L"][0], p["total_weight"][0]), measure=float(e)))
    return dict(viol=viol, nontrivial=True, digest=digest_arrays(np.array([W0, L])), transitions=1, validated=2)


R_GAS = 1716.49
GAMMA = 1.4
LIP = dict(T=0.005, P=1.0e-3, rho=1.5e-7, speed_of_sound=0.006, mu=1.0e-11)

_atm = {}


def atm_problem():
    from openaerostruct.common.atmos_group import AtmosGroup

    if "p" not in _atm:
        p = om.Problem(reports=False)
        ivc = om.IndepVarComp()
        ivc.add_output("altitude", val=0.0, units="ft")
        ivc.add_output("Mach_number", val=0.5)
        p.model.add_subsystem("ivc", ivc, promotes=["*"])
        p.model.add_subsystem("a", AtmosGroup(), promotes=["*"])
        p.setup()
        _atm["p"] = p
    return _atm["p"]


def atm_eval(h, M):
    p = atm_problem()
    p.set_val("altitude", h, units="ft")
    p.set_val("Mach_number", M)
    p.run_model()
    return {k: float(p.get_val(k, units=u)[0]) for k, u in [("T", "degR"), ("P", "psi"), ("rho", "slug/ft**3"), ("speed_of_sound", "ft/s"), ("mu", "lbf*s/ft**2"), ("v", "ft/s"), ("re", "1/ft")]}


def part_atmos(s):
    h, M = s["h"], s["M"]
    a = atm_eval(h, M)
    viol, val = [], 0

    def bad(oracle, msg, e):
        viol.append(dict(sig=dict(oracle=oracle), msg="h=%g ft: %s" % (h, msg), measure=float(e)))

    val += 4
    e = abs(a["P"] * 144.0 / (a["rho"] * R_GAS * a["T"]) - 1)
    if not e <= 2e-3:
        bad("ideal_gas", "P/(rho R T) - 1 = %.3e (P=%.6g psi, rho=%.6g, T=%.6g)" % (e, a["P"], a["rho"], a["T"]), e)
    e = abs(a["speed_of_sound"] / np.sqrt(GAMMA * R_GAS * a["T"]) - 1)
    if not e <= 2e-3:
        bad("speed_of_sound", "a/sqrt(gamma R T) - 1 = %.3e" % e, e)
    e = abs(a["v"] - M * a["speed_of_sound"]) / a["speed_of_sound"]
    if not e <= 1e-12:
        bad("v_equals_M_a", "v=%.10g, M a=%.10g" % (a["v"], M * a["speed_of_sound"]), e)
    e = abs(a["re"] / (a["rho"] * a["v"] / a["mu"]) - 1)
    if not e <= 1e-9:
        bad("reynolds", "re=%.10g vs rho v/mu=%.10g" % (a["re"], a["rho"] * a["v"] / a["mu"]), e)
    # same altitude, other Mach number, evaluated on the same live problem: v must follow (and so must re)
    b = atm_eval(h, 0.5 * M + 0.05)
    val += 2
    e = abs(b["v"] - (0.5 * M + 0.05) * b["speed_of_sound"]) / b["speed_of_sound"]
    if not e <= 1e-12:
        bad("v_equals_M_a", "after changing only the Mach number: v=%.10g, M a=%.10g" % (b["v"], (0.5 * M + 0.05) * b["speed_of_sound"]), e)
    e = abs(b["re"] / (b["rho"] * b["v"] / b["mu"]) - 1)
    if not e <= 1e-9:
        bad("reynolds", "after changing only the Mach number: re=%.10g vs rho v/mu=%.10g" % (b["re"], b["rho"] * b["v"] / b["mu"]), e)
    if -999 <= h <= 149999:
        lo, hi = atm_eval(h - 1.0, M), atm_eval(h + 1.0, M)
        for k, L in LIP.items():
            val += 1
            d = abs(hi[k] - lo[k])
            if not d <= 2.0 * L:
                bad("continuity", "%s jumps by %.3e over 2 ft (bound %.1e)" % (k, d, 2 * L), d)
            # monotone pressure and density
        for k in ("P", "rho"):
            val += 1
            if not hi[k] < lo[k]:
                bad("monotone", "%s does not decrease with altitude" % k, 1.0)
    return dict(viol=viol, nontrivial=True, digest=digest_arrays(np.array(list(a.values()))), transitions=4, validated=val)
