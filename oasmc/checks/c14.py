"""C14 - generated meshes are well-formed, ordered and consistent between half and full."""
import itertools
import warnings

import numpy as np

from oasmc.engine import digest_arrays

ID = "C14"
RULE = (
    "complete product num_x x num_y x span x root_chord x span_cos_spacing x chord_cos_spacing x wing_type x offset for generate_mesh "
    "(each state = one (wing_type, shape, spacing, size, offset) tuple, evaluated for symmetry on and off and through getFullMesh), and "
    "sections x ny-per-section x symmetry/root_section x taper/sweep/span menus for the multi-section generator, unify_mesh and "
    "GeomMultiUnification; non-trivial = distinct generated meshes"
)
ASSUMPTIONS = ["finite alphabets for the real parameters; num_x<=6, num_y<=11 in the complete product (single production sizes up to 11x51 / 2x201), <=4 sections", "NumPy trusted"]
BOUND = {"quick": "num_x<=4, num_y<=7 exhaustively + production sizes 11x51, 7x101, 2x201, 9x21", "thorough": "num_x<=6, num_y<=11"}
TOL = 1e-12


def states(tier, seed):
    st = []
    nxs = [2, 3, 4] if tier == "quick" else [2, 3, 4, 5, 6]
    nys = [3, 5, 7] if tier == "quick" else [3, 5, 7, 9, 11]
    spans = [1.0, 10.0] if tier == "quick" else [1.0, 10.0, 60.0]
    chords = [0.5, 5.0] if tier == "quick" else [0.5, 1.0, 5.0]
    for nx, ny, span, ch, sc, cc, wt, off in itertools.product(nxs, nys, spans, chords, [0.0, 0.3, 1.0], [0.0, 0.5, 1.0], ["rect", "CRM", "CRM:jig", "CRM:alpha_2.75"], [None, [3.0, 0.0, -1.0], [0.5, 2.0, -2.5]]):  # the last offset's components cancel
        if wt != "rect" and (span != spans[0] or ch != chords[0]):
            continue  # span and root_chord are ignored for the CRM
        st.append(dict(part="gen", nx=nx, ny=ny, span=span, chord=ch, scos=sc, ccos=cc, wt=wt, off=off))
    # production-size meshes (the generators' index arithmetic, CRM interpolation and cosine blending beyond num_y = 11)
    for (nx, ny), (sc, cc), wt, off in itertools.product([(11, 51), (7, 101), (2, 201), (9, 21)], [(0.0, 0.0), (0.3, 0.5), (1.0, 1.0)], ["rect", "CRM", "CRM:jig", "CRM:alpha_2.75"], [None, [3.0, 0.0, -1.0]]):
        st.append(dict(part="gen", nx=nx, ny=ny, span=spans[1], chord=chords[0], scos=sc, ccos=cc, wt=wt, off=off))
    menus = dict(taper=[1.0, 0.6], sweep=[0.0, 0.3], span=[1.0, 2.5])
    for nsec in (1, 2, 3, 4):  # four sections: the first count with two middle sections on one side of the root
        for nys_ in itertools.product([2, 3], repeat=nsec):
            roots = ["sym"] + list(range(nsec))
            for root in roots:
                for nx in (2, 3):
                    for tp, sw, sp in itertools.product(menus["taper"], menus["sweep"], menus["span"]):
                        st.append(dict(part="multi", nsec=nsec, ny=list(nys_), root=root, nx=nx, taper=tp, sweep=sw, span=sp))
    for sym in (True, False):
        for mk in ("101", "111", "010", "100"):
            st.append(dict(part="joinmeasure", nsec=2, sym=sym, masks=mk, edge=0))
        for mk, edge in itertools.product(("101,101", "100,001", "110,011", "111,111", "010,100", "100,100", "001,010"), (0, 1)):
            st.append(dict(part="joinmeasure", nsec=3, sym=sym, masks=mk, edge=edge))
    return st, 0


def run_state(s):
    return globals()["part_" + s["part"]](s)


def part_joinmeasure(s):
    """GeomMultiJoin.section_separation, the library's measure (and optimiser constraint) of 'sections join with coincident
    edges': zero for the generated (coincident) sections whatever axes are selected per edge, and - layout-free - after a rigid
    translation of the outboard sections its non-zero entries are the selected components of that translation, twice each"""
    import openmdao.api as om

    from openaerostruct.geometry import geometry_mesh_gen as mg
    from openaerostruct.geometry.geometry_multi_join import GeomMultiJoin

    nsec = s["nsec"]
    sym = s["sym"]
    surf = {"name": "surface", "is_multi_section": True, "num_sections": nsec, "sec_name": ["sec%d" % i for i in range(nsec)], "symmetry": sym, "S_ref_type": "wetted", "taper": [0.8, 0.9, 1.0][:nsec], "span": [1.5, 1.0, 2.0][:nsec], "sweep": [0.3, 0.1, 0.0][:nsec], "root_chord": 1.3, "meshes": "gen-meshes", "nx": 3, "ny": [3, 4, 2][:nsec]}
    if not sym:
        surf["root_section"] = nsec - 1
    _, secs = mg.generate_mesh(surf)
    masks = [np.array([int(c) for c in mk]) for mk in s["masks"].split(",")]
    viol, val = [], 0
    for shift in (None, np.array([0.31, -0.47, 0.13])):
        ms = [m.copy() for m in secs]
        k = s["edge"]
        if shift is not None:
            for i in range(k + 1):
                ms[i] = ms[i] + shift  # sections are ordered tip -> root: move everything outboard of edge k
        p = om.Problem(reports=False)
        p.model.add_subsystem("j", GeomMultiJoin(sections=[{"name": "sec%d" % i, "mesh": m} for i, m in enumerate(ms)], dim_constr=masks), promotes=["*"])
        p.setup()
        for i, m in enumerate(ms):
            p.set_val("sec%d_join_mesh" % i, m)
        p.run_model()
        sep = np.array(p["section_separation"], dtype=float)
        val += 1
        if shift is None:
            if not np.abs(sep).max() <= 1e-12:
                viol.append(dict(sig=dict(oracle="join_measure_zero_for_coincident_sections", nsec=nsec), msg="masks %s: node-for-node coincident sections are reported as separated: %s" % (s["masks"], np.array2string(sep, precision=4)), measure=float(np.abs(sep).max())))
        else:
            want = sorted(np.repeat(np.abs(shift[masks[k] == 1]), 2).tolist())
            got = sorted(np.abs(sep[np.abs(sep) > 1e-12]).tolist())
            if len(got) != len(want) or not np.allclose(got, want, rtol=0, atol=1e-12):
                viol.append(dict(sig=dict(oracle="join_measure_reports_translation", nsec=nsec), msg="masks %s, sections outboard of edge %d moved by %s: separation %s" % (s["masks"], k, shift, np.array2string(sep, precision=4)), measure=1.0))
    return dict(viol=viol, nontrivial=True, digest=digest_arrays(sep), transitions=2, validated=val)


def part_gen(s):
    from openaerostruct.geometry.utils import generate_mesh, getFullMesh

    viol, val = [], 0

    def gen_(sym, off):
        d = {"num_x": s["nx"], "num_y": s["ny"], "wing_type": s["wt"], "symmetry": sym, "span_cos_spacing": s["scos"], "chord_cos_spacing": s["ccos"]}
        if s["wt"] == "rect":
            d["span"] = s["span"]
            d["root_chord"] = s["chord"]
        else:
            d["num_twist_cp"] = 4
        if off is not None:
            d["offset"] = np.array(off)
        with warnings.catch_warnings():
            warnings.simplefilter("ignore")
            r = generate_mesh(d)
        if s["wt"] != "rect":
            if not (isinstance(r, tuple) and len(r) == 2):
                return None, None
            return np.asarray(r[0], float), np.asarray(r[1], float)
        return np.asarray(r, float), None

    def bad(oracle, msg, m=1.0):
        viol.append(dict(sig=dict(oracle=oracle, wing=s["wt"].split(":")[0]), msg=msg, measure=float(m)))

    full, tw_f = gen_(False, None)
    half, tw_h = gen_(True, None)
    nyh = (s["ny"] + 1) // 2
    val += 2
    if full is None or full.shape != (s["nx"], s["ny"], 3):
        bad("shape", "full mesh has shape %s, expected %s" % (None if full is None else full.shape, (s["nx"], s["ny"], 3)))
        return dict(viol=viol, nontrivial=True, digest="shape", transitions=2, validated=val)
    if half.shape != (s["nx"], nyh, 3):
        bad("shape", "half mesh has shape %s, expected %s" % (half.shape, (s["nx"], nyh, 3)))
        return dict(viol=viol, nontrivial=True, digest="shape", transitions=2, validated=val)
    scale = max(np.abs(full).max(), 1e-300)
    for name, m in (("full", full), ("half", half)):
        val += 3
        if not np.all(np.diff(m[:, :, 0], axis=0) > 0):
            bad("x_increasing_chordwise", "%s mesh: x does not increase strictly from leading to trailing edge" % name)
        if not np.all(np.diff(m[:, :, 1], axis=1) > 0):
            bad("y_increasing_spanwise", "%s mesh: y does not increase strictly spanwise" % name)
        if not np.all(np.isfinite(m)):
            bad("finite", "%s mesh has non-finite entries" % name)
    val += 1
    e = np.abs(full - (full * np.array([1, -1, 1]))[:, ::-1]).max() / scale
    if not e <= TOL:
        bad("mirror_symmetry", "full mesh is not mirror-symmetric about y=0 (%.2e)" % e, e)
    val += 1
    e = np.abs(half - full[:, :nyh]).max() / scale
    if not e <= TOL:
        bad("half_is_left_half_of_full", "symmetric mesh differs from the left half of the full mesh (%.2e)" % e, e)
    val += 2
    e = np.abs(getFullMesh(left_mesh=half) - full).max() / scale
    if not e <= TOL:
        bad("getFullMesh_left", "getFullMesh(left_mesh=half) does not reproduce the full mesh (%.2e)" % e, e)
    right = (half * np.array([1, -1, 1]))[:, ::-1].copy()
    e = np.abs(getFullMesh(right_mesh=right) - full).max() / scale
    if not e <= TOL:
        bad("getFullMesh_right", "getFullMesh(right_mesh=...) does not reproduce the full mesh (%.2e)" % e, e)
    if s["wt"] == "rect":
        val += 4
        if not abs((full[0, -1, 1] - full[0, 0, 1]) - s["span"]) <= TOL * s["span"]:
            bad("span_extent", "tip-to-tip extent %.12g != span %.12g" % (full[0, -1, 1] - full[0, 0, 1], s["span"]))
        if not abs(half[0, -1, 1]) <= TOL * s["span"] or not abs(half[0, 0, 1] + s["span"] / 2) <= TOL * s["span"]:
            bad("half_extent", "half mesh does not run from -span/2 to 0")
        ch = full[-1, :, 0] - full[0, :, 0]
        if not np.abs(ch - s["chord"]).max() <= TOL * s["chord"]:
            bad("root_chord", "chord %.12g != root_chord %.12g" % (ch[nyh - 1], s["chord"]))
        if not np.abs(full[:, :, 2]).max() == 0.0:
            bad("planar", "rect mesh is not in the z=0 plane")
    else:
        val += 2
        if tw_f is None or len(tw_f) != 4 or len(tw_h) != 4:
            bad("twist_cp_length", "CRM twist control points: got %s / %s, expected 4" % (None if tw_f is None else len(tw_f), None if tw_h is None else len(tw_h)))
        elif not np.abs(tw_f - tw_f[::-1]).max() <= 1e-12:
            bad("twist_cp_symmetric", "full-span CRM twist control points are not mirror-symmetric")
    if s["off"] is not None:
        val += 2
        fo, _ = gen_(False, s["off"])
        ho, _ = gen_(True, s["off"])
        e = max(np.abs(fo - full - np.array(s["off"])).max(), np.abs(ho - half - np.array(s["off"])).max()) / scale
        if not e <= TOL:
            bad("offset_translation", "offset is not a pure translation (%.2e)" % e, e)
    return dict(viol=viol, nontrivial=True, digest=digest_arrays(full), transitions=4, validated=val)


def part_multi(s):
    import openmdao.api as om

    from openaerostruct.geometry import geometry_mesh_gen as mg
    from openaerostruct.geometry.geometry_group import build_sections
    from openaerostruct.geometry.geometry_unification import GeomMultiUnification, unify_mesh

    nsec = s["nsec"]
    sym = s["root"] == "sym"
    surf = {
        "name": "surface",
        "is_multi_section": True,
        "num_sections": nsec,
        "sec_name": ["sec%d" % i for i in range(nsec)],
        "symmetry": sym,
        "S_ref_type": "wetted",
        "taper": [s["taper"]] + [1.0 - 0.1 * i for i in range(1, nsec)],
        "span": [s["span"]] + [1.0 + 0.5 * i for i in range(1, nsec)],
        "sweep": [s["sweep"]] + [0.1 * i for i in range(1, nsec)],
        "root_chord": 1.3,
        "meshes": "gen-meshes",
        "nx": s["nx"],
        "ny": list(s["ny"]),
        "CL0": 0.0,
        "CD0": 0.015,
        "k_lam": 0.05,
        "c_max_t": 0.303,
        "with_viscous": False,
        "with_wave": False,
    }
    if not sym:
        surf["root_section"] = s["root"]
    viol, val = [], 0
    wh = dict(part="multi", sym=sym)

    def bad(oracle, msg, m=1.0, **kw):
        viol.append(dict(sig=dict(oracle=oracle, **wh, **kw), msg=msg, measure=float(m)))

    mesh, secs = mg.generate_mesh(surf)
    val += 1
    nytot = sum(s["ny"]) - (nsec - 1)
    if mesh.shape != (s["nx"], nytot, 3) or any(sec.shape != (s["nx"], n, 3) for sec, n in zip(secs, s["ny"])):
        bad("shape", "unified mesh %s / section meshes %s have unexpected shapes" % (mesh.shape, [x.shape for x in secs]))
        return dict(viol=viol, nontrivial=True, digest="shape", transitions=1, validated=val)
    scale = np.abs(mesh).max()
    val += 2
    if not np.all(np.diff(mesh[:, :, 0], axis=0) > 0):
        bad("x_increasing_chordwise", "x does not increase chordwise")
    if not np.all(np.diff(mesh[:, :, 1], axis=1) > 0):
        bad("y_increasing_spanwise", "y does not increase spanwise in the unified mesh")
    for i in range(nsec - 1):
        val += 1
        e = np.abs(secs[i][:, -1] - secs[i + 1][:, 0]).max()
        if not e <= TOL * scale:
            side = "right" if (not sym and i >= s["root"]) else "left"
            bad("section_edges_coincide", "sections %d and %d do not share an edge: gap %.3e" % (i, i + 1, e), e, side=side)
    val += 1
    cat = np.concatenate([sec[:, :-1] for sec in secs[:-1]] + [secs[-1]], axis=1)
    if not np.abs(cat - mesh).max() <= TOL * scale:
        bad("unified_is_concatenation", "unified mesh is not the concatenation of the section meshes")
    # documented section parameters: span of each section and taper of its chord
    for i in range(nsec):
        val += 2
        b = secs[i][0, -1, 1] - secs[i][0, 0, 1]
        if not abs(b - surf["span"][i]) <= 1e-12 * max(1.0, b):
            bad("section_span", "section %d spans %.12g, requested %.12g" % (i, b, surf["span"][i]))
        c_in, c_out = secs[i][-1, :, 0] - secs[i][0, :, 0], None
        # inboard edge is the one nearer the root section
        if sym or i <= (s["root"] if not sym else nsec - 1):
            root_c, tip_c = c_in[-1], c_in[0]
        else:
            root_c, tip_c = c_in[0], c_in[-1]
        if not abs(tip_c - root_c * surf["taper"][i]) <= 1e-12 * max(1.0, root_c):
            side = "right" if (not sym and i > s["root"]) else "left"
            bad("section_taper", "section %d: tip chord %.12g != taper %.3g x inboard chord %.12g" % (i, tip_c, surf["taper"][i], root_c), side=side)
    # unification of the C0-continuous sections reproduces the contiguous surface node for node
    sec_dicts = build_sections(surf)
    for shift in (True, False):
        val += 2
        u = unify_mesh(sec_dicts, shift_uni_mesh=shift)
        if u.shape != mesh.shape or not np.abs(u - mesh).max() <= TOL * scale:
            bad("unify_mesh", "unify_mesh(shift=%s) differs from the generator's contiguous mesh" % shift, shift=shift)
        p = om.Problem(reports=False)
        p.model.add_subsystem("u", GeomMultiUnification(sections=sec_dicts, surface_name="surface", shift_uni_mesh=shift), promotes=["*"])
        try:
            p.setup()
            for sd in sec_dicts:
                p.set_val(sd["name"] + "_def_mesh", sd["mesh"])
            p.run_model()
        except Exception as e:  # noqa
            bad("GeomMultiUnification_runs", "GeomMultiUnification(shift=%s) with %d section(s) raises %s: %s" % (shift, nsec, type(e).__name__, str(e)[:120]), nsec=nsec, shift=shift, exc=type(e).__name__)
            continue
        uu = p["surface_uni_mesh"]
        if uu.shape != mesh.shape or not np.abs(uu - mesh).max() <= TOL * scale:
            bad("GeomMultiUnification", "GeomMultiUnification(shift=%s) differs from the contiguous mesh" % shift, shift=shift)
    return dict(viol=viol, nontrivial=True, digest=digest_arrays(mesh), transitions=6, validated=val)
