"""C18 - viscous and wave drag estimates are well-behaved and discretisation-consistent."""
import itertools

import numpy as np
import openmdao.api as om

from oasmc import builders, gen
from oasmc.engine import digest_arrays

ID = "C18"
RULE = (
    "ladders: complete product k_lam x Mach x t/c x sweep x side with a 30-step Reynolds ladder (part re), t/c ladder (part tc), Mach and CL "
    "ladders for wave drag (part wave), option switches on the components (part off) and through AeroPoint / AerostructPoint, where the group's CDv / CDw also equal the real drag chain at the surface's reported CL (part offgroup), and all mesh resolutions nx x ny x spacing (uniform, cosine, strongly graded towards root / tip) x side of a constant-chord "
    "untwisted wing through the real chain mesh -> VLMGeometry -> ViscousDrag / WaveDrag (part res); non-trivial = distinct ladders with "
    "non-constant values"
)
ASSUMPTIONS = ["finite ladders (30 Reynolds numbers, 15 t/c, 12 Mach, lift coefficients -0.6 ... 0.6); resolution part also at model scale (0.13 mm chord)", "admissible: chord Reynolds number x k_lam > 1e3", "Korn relation as documented for the crest-critical Mach number", "OpenMDAO/NumPy trusted"]
BOUND = {"quick": "k_lam in {0,0.05,0.7,1}, sweep in {0,20,40}", "thorough": "k_lam in {0,0.05,0.3,0.7,1}, sweep in {0,20,40,55}"}

RE = np.logspace(4.5, 9, 30)
TC = np.linspace(0.02, 0.30, 15)
MACH = np.array([0.1, 0.2, 0.3, 0.4, 0.5, 0.6, 0.7, 0.75, 0.8, 0.84, 0.9, 0.94])


def wing(sweep_deg, sym, nx=2, ny=5, cos_y=0.0, span=10.0, chord=1.3, cluster=None):
    nyf = ny if not sym else 2 * ny - 1
    m = gen.rect_full(nx, nyf, span=span, chord=chord, cos_y=cos_y)
    if cluster:
        # strongly graded stations: |y| = b/2 * t^5 ("root") or b/2 * (1 - (1-t)^5) ("tip"): the narrowest panel is ~1e-3 chords
        # wide, the widest several chords; chordwise nodes graded the same way
        t = np.abs(m[0, :, 1]) / (0.5 * span)
        t = t**5 if cluster == "root" else 1 - (1 - t) ** 5
        m[:, :, 1] = (np.sign(m[0, :, 1]) * 0.5 * span * t)[None, :]
        xi = np.linspace(0, 1, nx) ** 3
        m[:, :, 0] = chord * xi[:, None]
    m[:, :, 0] += np.abs(m[:, :, 1]) * np.tan(np.radians(sweep_deg))
    return m[:, :ny].copy() if sym else m


def states(tier, seed):
    st = []
    klams = [0.0, 0.05, 0.7, 1.0] if tier == "quick" else [0.0, 0.05, 0.3, 0.7, 1.0]
    sweeps = [0.0, 20.0, 40.0] if tier == "quick" else [0.0, 20.0, 40.0, 55.0]
    for kl, M, tc, sw, sym in itertools.product(klams, [0.1, 0.5, 0.84, 0.94], [0.02, 0.12, 0.3], sweeps, [False, True]):
        st.append(dict(part="re", k_lam=kl, M=M, tc=tc, sweep=sw, sym=sym))
    for kl, M, re, sw, sym in itertools.product(klams, [0.1, 0.84], [1e5, 1e6, 1e8], sweeps, [False, True]):
        st.append(dict(part="tc", k_lam=kl, M=M, re=re, sweep=sw, sym=sym))
    for tc, sw, sym in itertools.product([0.02, 0.08, 0.12, 0.2, 0.3], sweeps, [False, True]):
        st.append(dict(part="wave", tc=tc, sweep=sw, sym=sym))
        st.append(dict(part="wave", tc=tc, sweep=sw, sym=sym, cl0=0.2, cd0=0.01))
    for sym, which in itertools.product([False, True], ["viscous", "wave"]):
        for M, tc in itertools.product([0.3, 0.94], [0.05, 0.3]):
            st.append(dict(part="off", sym=sym, which=which, M=M, tc=tc))
    # the option switches seen through the public groups (AeroPoint / AerostructPoint): all four on/off combinations
    for sym, grp in itertools.product([False, True], ["AeroPoint", "AerostructPoint"]):
        st.append(dict(part="offgroup", sym=sym, group=grp))
    for sym, sw, kl in itertools.product([False, True], [0.0, 30.0], [0.05, 0.7]):
        st.append(dict(part="res", sym=sym, sweep=sw, k_lam=kl, tier=tier))
        if kl == 0.05:
            # the same wing at model scale (0.13 mm chord, Reynolds number per length scaled up): no absolute length in the panel lengths
            st.append(dict(part="res", sym=sym, sweep=sw, k_lam=kl, tier=tier, gscale=1.0e-4))
    return st, 0


def run_state(s):
    return globals()["part_" + s["part"]](s)


# the dictionary's zero-alpha coefficients must not enter the drag estimates: full-span cases carry non-zero CL0 / CD0 entries
DICT_EXTRAS = {True: dict(CL0=0.0, CD0=0.0), False: dict(CL0=0.15, CD0=0.02)}


def drag_problem(mesh, sym, k_lam=0.05, with_viscous=True, with_wave=True, CL0=0.0, CD0=0.0):
    from openaerostruct.aerodynamics.geometry import VLMGeometry
    from openaerostruct.aerodynamics.viscous_drag import ViscousDrag
    from openaerostruct.aerodynamics.wave_drag import WaveDrag

    surf = builders.aero_surface("w", mesh, sym, k_lam=k_lam, with_viscous=with_viscous, with_wave=with_wave, c_max_t=0.303, CL0=CL0, CD0=CD0)
    ny = mesh.shape[1]
    p = om.Problem(reports=False)
    ivc = om.IndepVarComp()
    ivc.add_output("def_mesh", val=mesh, units="m")
    ivc.add_output("re", val=1e6, units="1/m")
    ivc.add_output("Mach_number", val=0.5)
    ivc.add_output("t_over_c", val=np.full(ny - 1, 0.12))
    ivc.add_output("CL", val=0.4)
    p.model.add_subsystem("ivc", ivc, promotes=["*"])
    p.model.add_subsystem("g", VLMGeometry(surface=surf), promotes=["*"])
    p.model.add_subsystem("v", ViscousDrag(surface=surf), promotes=["*"])
    p.model.add_subsystem("w", WaveDrag(surface=surf), promotes=["*"])
    p.setup()
    return p


def ev(p, **kw):
    for k, v in kw.items():
        p.set_val(k, v)
    p.run_model()
    return float(p["CDv"][0]), float(p["CDw"][0])


def part_re(s):
    m = wing(s["sweep"], s["sym"])
    p = drag_problem(m, s["sym"], k_lam=s["k_lam"], **DICT_EXTRAS[bool(s["sym"])])
    ny = m.shape[1]
    chord = 1.3
    viol, vals = [], []
    res = [r for r in RE if s["k_lam"] == 0 or r * chord * s["k_lam"] > 1e3]
    for r in res:
        vals.append(ev(p, re=r, Mach_number=s["M"], t_over_c=np.full(ny - 1, s["tc"]))[0])
    vals = np.array(vals)
    wh = dict(k_lam=s["k_lam"])
    if not np.all(np.isfinite(vals)) or not np.all(vals > 0):
        viol.append(dict(sig=dict(oracle="cdv_positive", **wh), msg="CDv not positive/finite on the Reynolds ladder: min %.3e" % np.nanmin(vals), measure=1.0))
    d = np.diff(vals)
    if not np.all(d < 0):
        k = int(np.argmax(d >= 0))
        viol.append(dict(sig=dict(oracle="cdv_decreasing_in_re", **wh), msg="CDv does not decrease from re=%.3g to %.3g: %.6e -> %.6e (k_lam=%g M=%g)" % (res[k], res[k + 1], vals[k], vals[k + 1], s["k_lam"], s["M"]), measure=float(d.max())))
    return dict(viol=viol, nontrivial=bool(vals.std() > 0), digest=digest_arrays(vals), transitions=len(res), validated=2 * len(res) - 1)


def part_tc(s):
    m = wing(s["sweep"], s["sym"])
    ny = m.shape[1]
    if s["k_lam"] and s["re"] * 1.3 * s["k_lam"] <= 1e3:
        return dict(viol=[], nontrivial=False, digest="inadm", transitions=0, validated=0, inadmissible=True)
    p = drag_problem(m, s["sym"], k_lam=s["k_lam"], **DICT_EXTRAS[bool(s["sym"])])
    vals = np.array([ev(p, re=s["re"], Mach_number=s["M"], t_over_c=np.full(ny - 1, t))[0] for t in TC])
    viol = []
    if not np.all(np.diff(vals) > 0):
        viol.append(dict(sig=dict(oracle="cdv_increasing_in_tc", k_lam=s["k_lam"]), msg="CDv does not increase with thickness ratio: %s" % np.array2string(vals, precision=6), measure=float(-np.diff(vals).min())))
    return dict(viol=viol, nontrivial=bool(vals.std() > 0), digest=digest_arrays(vals), transitions=len(TC), validated=len(TC) - 1)


def mcrit(sweep_deg, tc, CL, ka=0.95):
    c = np.cos(np.radians(sweep_deg))
    mdd = ka / c - tc / c**2 - CL / (10 * c**3)
    return mdd - (0.1 / 80.0) ** (1.0 / 3.0)


def part_wave(s):
    m = wing(s["sweep"], s["sym"])
    ny = m.shape[1]
    # the CL input of the component is the surface's total lift coefficient (CL0 included by TotalLift): the dictionary's CL0 /
    # CD0 entries must not enter a second time
    p = drag_problem(m, s["sym"], CL0=s.get("cl0", 0.0), CD0=s.get("cd0", 0.0))
    viol, val, runs = [], 0, 0
    tcs = np.full(ny - 1, s["tc"])
    allv = []
    for CL in (0.0, 0.3, 0.6, -0.3):
        mc = mcrit(s["sweep"], s["tc"], CL)
        machs = sorted(set(list(MACH) + [x for x in (mc - 1e-3, mc, mc + 1e-3, mc + 0.02) if 0 < x < 0.95]))
        vals = np.array([ev(p, Mach_number=M, CL=CL, t_over_c=tcs)[1] for M in machs])
        runs += len(machs)
        allv.append(vals)
        for M, v in zip(machs, vals):
            val += 1
            if M <= mc - 1e-9 and v != 0.0:
                viol.append(dict(sig=dict(oracle="cdw_zero_below_mcrit"), msg="CDw=%.3e at M=%.4f below crest-critical Mach %.4f" % (v, M, mc), measure=float(v)))
            if M >= mc + 0.02 - 1e-12 and not v > 0:
                viol.append(dict(sig=dict(oracle="cdw_positive_above_mcrit"), msg="CDw=%.3e at M=%.4f above crest-critical Mach %.4f" % (v, M, mc), measure=1.0))
            if abs(M - (mc + 1e-3)) < 1e-12 and not v <= 1e-9:
                viol.append(dict(sig=dict(oracle="cdw_smooth_onset"), msg="CDw=%.3e only 1e-3 above the crest-critical Mach number" % v, measure=float(v)))
        above = [(M, v) for M, v in zip(machs, vals) if M > mc + 1e-9]
        for (M1, v1), (M2, v2) in zip(above[:-1], above[1:]):
            val += 1
            if not v2 > v1:
                viol.append(dict(sig=dict(oracle="cdw_increasing_in_mach"), msg="CDw does not grow from M=%.4f to %.4f: %.3e -> %.3e" % (M1, M2, v1, v2), measure=float(v1 - v2)))
    # increasing with lift at fixed Mach beyond onset
    for M in (0.84, 0.9, 0.94):
        # signed lift coefficient: down-loaded surfaces (negative CL) included, the growth with lift has no kink at zero lift
        v = [ev(p, Mach_number=M, CL=CL, t_over_c=tcs)[1] for CL in (-0.6, -0.3, 0.0, 0.3, 0.6)]
        runs += 5
        for a, b, cl in ((v[0], v[1], -0.3), (v[1], v[2], 0.0), (v[2], v[3], 0.3), (v[3], v[4], 0.6)):
            val += 1
            if b > 0 and not b > a:
                viol.append(dict(sig=dict(oracle="cdw_increasing_in_lift"), msg="CDw does not grow with lift at M=%g: %.3e -> %.3e" % (M, a, b), measure=float(a - b)))
            if not b >= a:
                viol.append(dict(sig=dict(oracle="cdw_nondecreasing_in_lift"), msg="CDw decreases with lift at M=%g" % M, measure=float(a - b)))
    av = np.concatenate(allv)
    return dict(viol=viol, nontrivial=bool(av.max() > 0), digest=digest_arrays(av), transitions=runs, validated=val)


def part_offgroup(s):
    m = wing(25.0, s["sym"], nx=3, ny=3 if s["sym"] else 5)
    res = {}
    for visc, wave in itertools.product([False, True], repeat=2):
        if s["group"] == "AeroPoint":
            surf = builders.aero_surface("w", m, s["sym"], with_viscous=visc, with_wave=wave, CD0=0.003, CL0=0.05)
            p = builders.build_aero([surf], dict(v=248.0, alpha=3.0, rho=0.38, re=1.0e6, Mach_number=0.84))
            pre = "ap.w_perf."
        else:
            surf = builders.struct_surface("w", m, s["sym"], "tube", with_viscous=visc, with_wave=wave, CD0=0.003, CL0=0.05)
            p = builders.build_aerostruct([surf], dict(Mach_number=0.84, W0=2.0e3, v=248.0, rho=0.38, alpha=3.0, speed_of_sound=295.0, R=2.0e6, load_factor=1.0, re=1.0e6))
            builders.tighten(p, nl="default", lin="default")
            pre = "AS_point_0.w_perf."
        p.run_model()
        res[(visc, wave)] = {q: float(p[pre + q][0]) for q in ("CDv", "CDw", "CDi", "CD", "CL")}
        if wave:
            # the group's wave (and viscous) drag is the drag component's value AT THE SURFACE'S REPORTED LIFT COEFFICIENT (zero-alpha
            # offset CL0 included) on the analysed lattice: the real chain VLMGeometry -> ViscousDrag / WaveDrag fed by the harness
            mesh_a = m if s["group"] == "AeroPoint" else np.array(p["AS_point_0.coupled.w.def_mesh"])
            q_ = drag_problem(mesh_a, s["sym"], with_viscous=visc, with_wave=True, CL0=0.05, CD0=0.003)
            res[(visc, wave)]["chain"] = ev(q_, re=1.0e6, Mach_number=0.84, CL=res[(visc, wave)]["CL"], t_over_c=np.array(p[pre + "t_over_c"]).ravel())
    viol, val = [], 0
    for (visc, wave), r in res.items():
        if "chain" in r:
            val += 2
            cv, cw = r.pop("chain")
            for nm, a, b in (("CDw", r["CDw"], cw), ("CDv", r["CDv"], cv)):
                if not abs(a - b) <= 1e-9 * max(abs(b), 1e-6):
                    viol.append(dict(sig=dict(oracle="group_drag_is_component_at_reported_CL", which=nm, group=s["group"]), msg="%s of the group (%.10e) differs from the drag component evaluated at the surface's reported CL = %.6f on the same lattice (%.10e); viscous %s" % (nm, a, r["CL"], b, visc), measure=float(abs(a - b))))
    for (visc, wave), r in res.items():
        val += 3
        if not visc and r["CDv"] != 0.0:
            viol.append(dict(sig=dict(oracle="zero_when_off", which="viscous", group=s["group"]), msg="with_viscous=False, with_wave=%s: CDv = %.6e" % (wave, r["CDv"]), measure=abs(r["CDv"])))
        if not wave and r["CDw"] != 0.0:
            viol.append(dict(sig=dict(oracle="zero_when_off", which="wave", group=s["group"]), msg="with_wave=False, with_viscous=%s: CDw = %.6e" % (visc, r["CDw"]), measure=abs(r["CDw"])))
        e = abs(r["CD"] - (r["CDi"] + r["CDv"] + r["CDw"] + 0.003))
        if not e <= 1e-12:
            viol.append(dict(sig=dict(oracle="cd_is_sum_of_parts", group=s["group"]), msg="CD differs from CDi + CDv + CDw + CD0 by %.2e (viscous %s, wave %s)" % (e, visc, wave), measure=float(e)))
    # an estimate that is on does not depend on the other switch (aero-only: identical flow; coupled: same to solver tolerance)
    tol = 0.0 if s["group"] == "AeroPoint" else 1e-6
    for q, a, b in (("CDv", (True, False), (True, True)), ("CDw", (False, True), (True, True))):
        val += 1
        if not abs(res[a][q] - res[b][q]) <= tol * abs(res[b][q]):
            viol.append(dict(sig=dict(oracle="independent_of_other_switch", which=q, group=s["group"]), msg="%s changes with the other option: %.10e vs %.10e" % (q, res[a][q], res[b][q]), measure=1.0))
    return dict(viol=viol, nontrivial=bool(res[(True, True)]["CDv"] > 0 and res[(True, True)]["CDw"] > 0), digest=digest_arrays(np.array([list(r.values()) for r in res.values()])), transitions=4, validated=val)


def part_off(s):
    m = wing(20.0, s["sym"])
    ny = m.shape[1]
    p = drag_problem(m, s["sym"], with_viscous=s["which"] != "viscous", with_wave=s["which"] != "wave", **DICT_EXTRAS[bool(s["sym"])])
    cdv, cdw = ev(p, Mach_number=s["M"], t_over_c=np.full(ny - 1, s["tc"]), CL=0.6)
    v = cdv if s["which"] == "viscous" else cdw
    other = cdw if s["which"] == "viscous" else cdv
    viol = []
    if not v == 0.0:
        viol.append(dict(sig=dict(oracle="option_off_exact_zero", which=s["which"]), msg="%s drag is %.3e with its option off" % (s["which"], v), measure=float(abs(v))))
    return dict(viol=viol, nontrivial=True, digest=digest_arrays(np.array([v, other])), transitions=1, validated=1)


def part_res(s):
    nxs = [2, 3, 5]
    nys = [3, 5, 7, 9, 11] if s.get("tier") == "thorough" else [3, 5, 7, 11]
    out = []
    # spanwise / chordwise spacing: uniform, cosine, and strongly graded towards the root or the tip (sliver panels)
    for nx, ny, cs in itertools.product(nxs, nys, [0.0, 1.0, "root", "tip"]):
        nyh = (ny + 1) // 2 if s["sym"] else ny
        gs = s.get("gscale", 1.0)
        m = wing(s["sweep"], s["sym"], nx=nx, ny=nyh, cos_y=cs if not isinstance(cs, str) else 0.0, cluster=cs if isinstance(cs, str) else None, span=10.0 * gs, chord=1.3 * gs)
        p = drag_problem(m, s["sym"], k_lam=s["k_lam"], **DICT_EXTRAS[bool(s["sym"])])
        out.append(ev(p, re=2e6 / gs, Mach_number=0.84, CL=0.5, t_over_c=np.full(m.shape[1] - 1, 0.12)))
    out = np.array(out)
    viol = []
    for j, nm in enumerate(("CDv", "CDw")):
        sc = max(abs(out[0, j]), 1e-12)
        e = np.abs(out[:, j] - out[0, j]).max() / sc
        if not e <= 1e-9:
            viol.append(dict(sig=dict(oracle="resolution_independent", observable=nm, sym=s["sym"]), msg="%s of a constant-chord untwisted wing varies with mesh resolution by %.2e: %s" % (nm, e, np.array2string(out[:, j], precision=8)), measure=float(e)))
    return dict(viol=viol, nontrivial=bool(out[0, 0] > 0 and out[0, 1] > 0), digest=digest_arrays(out[0]), transitions=len(out), validated=2 * len(out))
