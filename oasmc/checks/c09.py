"""C09 - the compressible option implements Prandtl-Glauert and is exact at Mach 0."""
import itertools

import numpy as np

from oasmc import builders, gen
from oasmc.engine import digest_arrays

ID = "C09"
RULE = (
    "complete product of surface-set x planform x nx x ny x Mach x alpha x beta x rotational; part 'pg': compressible forces vs the "
    "real incompressible solver on the harness-transformed geometry; part 'm0': M=0,beta=0 identity; part 'cont': Mach ladder; part 'pgrot': with rotation rates at M>=0 the onset flow "
    "handed to the equivalent incompressible problem is a rigid-body rotation field of the stretched geometry; "
    "non-trivial = forces non-zero (and M>0 for the transformation identity)"
)
ASSUMPTIONS = ["finite alphabets for M, alpha, beta (0, +5, -5 deg); nx<=4, ny<=7, <=2 surfaces", "the incompressible solver is validated separately by C05", "OpenMDAO/NumPy/SciPy trusted"]
BOUND = {"quick": "M in {0,0.3,0.84}, nx<=3 (+ one planform with nx=4)", "thorough": "M in {0,0.3,0.6,0.84,0.94}, nx<=4"}
TOL = 1e-9


def surf_sets(tier):
    out = []
    pfs = ["rect", "swept", "twdi"] + (["camber", "crm"] if tier == "thorough" else [])
    nxs = [2, 3] if tier == "quick" else [2, 3, 4]
    sides = [("left", 3), ("full", 5)] if tier == "quick" else [("left", 3), ("right", 4), ("full", 5), ("full", 7)]
    for pf, nx, (side, ny) in itertools.product(pfs, nxs, sides):
        if pf == "camber" and nx < 3:
            continue
        out.append([dict(pf=pf, nx=nx, ny=ny, side=side, off=None)])
    if tier == "quick":
        # nx = 4 is the smallest mesh with an interior chordwise panel row
        for side, ny in sides:
            out.append([dict(pf="twdi", nx=4, ny=ny, side=side, off=None)])
    out.append([dict(pf="swept", nx=3, ny=5, side="full", off=None), dict(pf="rect", nx=2, ny=3, side="full", off=[5.0, 0.3, 0.7], span=3.0, chord=0.8)])
    out.append([dict(pf="twdi", nx=2, ny=3, side="left", off=None), dict(pf="rect", nx=3, ny=2, side="left", off=[5.0, 0.0, 0.7], span=3.0, chord=0.8)])
    return out


def states(tier, seed):
    fam = seed % 3
    Ms = [0.0, 0.3, 0.84] if tier == "quick" else [0.0, 0.3, 0.6, 0.84, 0.94]
    als = [0.0, 5.0, -10.0] if tier == "quick" else [0.0, 5.0, 15.0, -10.0]
    st, inadm = [], 0
    for ss, M, al, be, rot in itertools.product(surf_sets(tier), Ms, als, [0.0, 5.0, -5.0], [False, True]):
        sym = any(s["side"] != "full" for s in ss)
        if sym and be != 0.0:
            inadm += 1
            continue
        if rot:
            # the PG transformation of the rotational onset flow is not part of the statement's identity;
            # rotation is exercised in the M=0 identity only
            if M != 0.0 or be != 0.0:
                inadm += 1
                continue
            st.append(dict(part="m0", surfs=ss, M=0.0, alpha=al, beta=0.0, rot=True, fam=fam))
            continue
        st.append(dict(part="pg", surfs=ss, M=M, alpha=al, beta=be, rot=False, fam=fam))
        if M == 0.0 and be == 0.0:
            st.append(dict(part="m0", surfs=ss, M=0.0, alpha=al, beta=0.0, rot=False, fam=fam))
    for ss, al in itertools.product(surf_sets(tier)[:: 3 if tier == "quick" else 1], [5.0, -10.0]):
        st.append(dict(part="cont", surfs=ss, alpha=al, fam=fam))
    # the compressible option inside the aerostructural point: at Mach 0 (no sideslip) it coincides with the incompressible one
    for model, side, al in itertools.product(["tube", "wingbox"], ["left", "right", "full"], [4.0, -3.0]):
        st.append(dict(part="as_m0", model=model, side=side, alpha=al, surfs=[], fam=fam))
    # ... and at M > 0, with sideslip, its forces are the Prandtl-Glauert transform of the incompressible solution on the CONVERGED
    # deformed mesh
    for model, M, al, be in itertools.product(["tube", "wingbox"], [0.3, 0.84], [4.0], [0.0, 5.0, -5.0]):
        st.append(dict(part="as_pg", model=model, M=M, alpha=al, beta=be, surfs=[], fam=fam))
    # rotation rates at M > 0: the onset flow handed to the equivalent incompressible problem must be a rigid-body rotation field
    # OF THE STRETCHED GEOMETRY (some omega', u with v_i = omega' x r'_i + u) - "the incompressible problem on the geometry
    # rotated into the wind frame and stretched"; no particular omega' is demanded
    for ss, M, al, be, om_ in itertools.product(surf_sets(tier)[:: 2 if tier == "quick" else 1], [0.0, 0.3, 0.84], [5.0, -10.0], [0.0, 5.0], [[0.3, 0.0, 0.0], [0.0, 0.2, 0.0], [0.0, 0.0, -0.25], [0.35, 0.08, -0.05]]):
        sym = any(s_["side"] != "full" for s_ in ss)
        if sym and (be != 0.0 or om_[0] != 0.0 or om_[2] != 0.0):
            inadm += 1
            continue
        st.append(dict(part="pgrot", surfs=ss, M=M, alpha=al, beta=be, omega=om_, fam=fam))
    return st, inadm


def meshes_of(s):
    from oasmc.checks.c05 import mesh_of

    return [mesh_of(sp, s["fam"]) for sp in s["surfs"]]


def aero(meshes, syms, alpha, beta, M, compressible, omega=None):
    surfs = [builders.aero_surface("s%d" % k, m, sy) for k, (m, sy) in enumerate(zip(meshes, syms))]
    fl = dict(v=50.0, alpha=alpha, beta=beta, rho=1.1, Mach_number=M, cg=[0.3, 0.0, 0.1])
    if omega is not None:
        fl["omega"] = omega
    p = builders.build_aero(surfs, fl, compressible=compressible, rotational=omega is not None)
    p.run_model()
    return p


def forces(p, n):
    return [p["ap.aero_states.s%d_sec_forces" % k].copy() for k in range(n)]


def part_as_m0(s):
    sym = s["side"] != "full"
    m = gen.make_mesh("swept", 2, 3 if sym else 5, s["side"], s["fam"], asym=not sym, span=10.0, chord=1.6)
    out = []
    for comp in (True, False):
        kw = dict(struct_weight_relief=True, with_viscous=True, with_wave=True)
        surf = builders.struct_surface("wing", m, sym, s["model"], **kw)
        p = builders.build_aerostruct([surf], dict(Mach_number=0.0 if comp else 0.0, W0=2.0e3, v=100.0, rho=0.9, alpha=s["alpha"], speed_of_sound=200.0, R=2.0e6, load_factor=1.3), compressible=comp)
        builders.tighten(p, nl="default", lin="default")
        # Breguet range divides by the Mach number: the performance group is not part of this comparison
        p.run_model()
        A = "AS_point_0.coupled."
        out.append({k: np.array(p[A + k], dtype=float).copy() for k in ("aero_states.wing_sec_forces", "wing.disp", "wing_loads.loads", "wing.def_mesh")})
    viol, val = [], 0
    for k in out[0]:
        val += 1
        sc = max(np.abs(out[1][k]).max(), 1e-300)
        e = np.abs(out[0][k] - out[1][k]).max() / sc
        if not e <= 1e-7:
            viol.append(dict(sig=dict(oracle="mach0_identity_aerostructural", observable=k.split(".")[-1], model=s["model"]), msg="M=0: %s of the compressible and the incompressible aerostructural point differ by %.2e" % (k, e), measure=float(e)))
    return dict(viol=viol, nontrivial=bool(np.abs(out[1]["wing.disp"]).max() > 1e-9), digest=digest_arrays(out[1]["wing.disp"]), transitions=2, validated=val)


def part_as_pg(s):
    m = gen.make_mesh("swept", 2, 5, "full", s["fam"], asym=True, span=10.0, chord=1.6)
    surf = builders.struct_surface("wing", m, False, s["model"], struct_weight_relief=True, with_viscous=True)
    M, alpha, beta = s["M"], s["alpha"], s["beta"]
    p = builders.build_aerostruct([surf], dict(Mach_number=M, W0=2.0e3, v=100.0, rho=0.9, alpha=alpha, beta=beta, speed_of_sound=200.0, R=2.0e6, load_factor=1.3), compressible=True)
    builders.tighten(p, nl="default", lin="default")
    p.run_model()
    A = "AS_point_0.coupled."
    dm = np.array(p[A + "wing.def_mesh"], dtype=float)
    Fc = np.array(p[A + "aero_states.wing_sec_forces"], dtype=float)
    a, b = np.radians(alpha), np.radians(beta)
    ca, sa, cb, sb = np.cos(a), np.sin(a), np.cos(b), np.sin(b)
    Tw = np.array([[cb * ca, -sb, cb * sa], [sb * ca, cb, sb * sa], [-sa, 0, ca]])
    B = np.sqrt(1 - M * M)
    mt = np.einsum("lk,ijk->ijl", Tw, dm) * np.array([1, B, B])
    q = builders.build_aero([builders.aero_surface("s0", mt, False)], dict(v=100.0, alpha=0.0, beta=0.0, rho=0.9, Mach_number=0.0, cg=[0.3, 0.0, 0.1]))
    q.run_model()
    Fi = np.einsum("lk,ijk->ijl", Tw.T, np.array(q["ap.aero_states.s0_sec_forces"]) * np.array([1 / B**4, 1 / B**3, 1 / B**3]))
    sc = max(np.abs(Fi).max(), gen.force_floor(0.9, 100.0, [m]))
    e = np.abs(Fc - Fi).max() / sc
    viol = []
    if not e <= TOL:
        viol.append(dict(sig=dict(oracle="pg_transformation_aerostructural", model=s["model"], sideslip=bool(beta != 0.0)), msg="compressible aerostructural point: forces on the converged deformed mesh differ from the transformed incompressible solution by %.2e (M=%g alpha=%g beta=%g)" % (e, M, alpha, beta), measure=float(e)))
    return dict(viol=viol, nontrivial=bool(np.abs(dm - m).max() > 1e-6), digest=digest_arrays(Fc), transitions=2, validated=1)


def run_state(s):
    if s["part"] == "as_m0":
        return part_as_m0(s)
    if s["part"] == "as_pg":
        return part_as_pg(s)
    ms = [m for m, _ in meshes_of(s)]
    syms = [sy for _, sy in meshes_of(s)]
    n = len(ms)
    viol, validated = [], 0
    if s["part"] == "pg":
        M, alpha, beta = s["M"], s["alpha"], s["beta"]
        pc = aero(ms, syms, alpha, beta, M, True)
        Fc = forces(pc, n)
        a, b = np.radians(alpha), np.radians(beta)
        ca, sa, cb, sb = np.cos(a), np.sin(a), np.cos(b), np.sin(b)
        Tw = np.array([[cb * ca, -sb, cb * sa], [sb * ca, cb, sb * sa], [-sa, 0, ca]])
        B = np.sqrt(1 - M * M)
        mt = [np.einsum("lk,ijk->ijl", Tw, m) * np.array([1, B, B]) for m in ms]
        pi = aero(mt, syms, 0.0, 0.0, 0.0, False)
        Fi = [np.einsum("lk,ijk->ijl", Tw.T, F * np.array([1 / B**4, 1 / B**3, 1 / B**3])) for F in forces(pi, n)]
        sc = max(max(np.abs(F).max() for F in Fi), gen.force_floor(1.1, 50.0, ms))
        for k in range(n):
            validated += 1
            e = np.abs(Fc[k] - Fi[k]).max() / sc
            if not e <= TOL:
                viol.append(dict(sig=dict(oracle="pg_transformation", observable="sec_forces", sym=bool(syms[k]), nsurf=n), msg="compressible forces differ from transformed incompressible solution by %.2e (M=%g alpha=%g beta=%g)" % (e, M, alpha, beta), measure=float(e)))
        # coefficients of the compressible model are functions of its forces: CL, CD consistent with sec_forces
        nt = sc > 1e-9 and M > 0
        dg = digest_arrays(*Fc)
        tr = 2
    elif s["part"] == "pgrot":
        pc = aero(ms, syms, s["alpha"], s["beta"], s["M"], True, s["omega"])
        r = np.array(pc.get_val("ap.aero_states.coll_pts"), dtype=float).reshape(-1, 3)
        v = np.array(pc.get_val("ap.aero_states.rotational_velocities"), dtype=float).reshape(-1, 3)
        # v_i = omega' x r_i + u  is linear in (omega', u): v_i = -[r_i]_x omega' + u
        A = np.zeros((3 * len(r), 6))
        for i, ri in enumerate(r):
            A[3 * i : 3 * i + 3, :3] = -np.array([[0, -ri[2], ri[1]], [ri[2], 0, -ri[0]], [-ri[1], ri[0], 0]])
            A[3 * i : 3 * i + 3, 3:] = np.eye(3)
        x, *_ = np.linalg.lstsq(A, v.ravel(), rcond=None)
        res = np.abs(A @ x - v.ravel()).max()
        sc = max(np.abs(v).max(), 1e-300)
        validated += 1
        if not res <= 1e-10 * sc:
            viol.append(dict(sig=dict(oracle="pg_rotation_is_rigid_field", nsurf=n, M0=bool(s["M"] == 0.0)), msg="M=%g omega=%s: the rotational onset flow of the equivalent incompressible problem is not a rigid-body rotation field of the stretched geometry (residual %.2e of its magnitude)" % (s["M"], s["omega"], res / sc), measure=float(res / sc)))
        Fc = forces(pc, n)
        nt = bool(np.abs(v).max() > 1e-9 and len(r) >= 4)
        dg = digest_arrays(*Fc)
        tr = 1
    elif s["part"] == "m0":
        om_ = ([0.0, 0.2, 0.0] if any(syms) else [0.1, -0.2, 0.3]) if s["rot"] else None
        pc = aero(ms, syms, s["alpha"], 0.0, 0.0, True, om_)
        pn = aero(ms, syms, s["alpha"], 0.0, 0.0, False, om_)
        Fc, Fn = forces(pc, n), forces(pn, n)
        sc = max(max(np.abs(F).max() for F in Fn), gen.force_floor(1.1, 50.0, ms))
        for k in range(n):
            validated += 1
            e = np.abs(Fc[k] - Fn[k]).max() / sc
            if not e <= TOL:
                viol.append(dict(sig=dict(oracle="mach0_identity", observable="sec_forces", rot=s["rot"], nsurf=n), msg="M=0: compressible and incompressible forces differ by %.2e" % e, measure=float(e)))
        for q, idx in (("CL", 0), ("CD", 0), ("CM", 1)):
            validated += 1
            x, y = pc["ap." + q][idx], pn["ap." + q][idx]
            if not abs(x - y) <= TOL * max(abs(y), 1e-3):
                viol.append(dict(sig=dict(oracle="mach0_identity", observable=q, rot=s["rot"]), msg="M=0: %s %.12g vs %.12g" % (q, x, y), measure=float(abs(x - y))))
        nt = sc > 1e-9
        dg = digest_arrays(*Fc)
        tr = 2
    else:
        lad = [0.0, 1e-6, 1e-4, 1e-2, 0.1]
        Fs = [np.concatenate([F.ravel() for F in forces(aero(ms, syms, s["alpha"], 0.0, M, True), n)]) for M in lad]
        sc = max(np.abs(Fs[0]).max(), gen.force_floor(1.1, 50.0, ms))
        d = [np.abs(F - Fs[0]).max() / sc for F in Fs]
        for k in range(1, len(lad)):
            validated += 1
            # PG scalings are functions of M^2: the departure from M=0 must be O(M^2)
            if not d[k] <= 20.0 * lad[k] ** 2 + 1e-10:
                viol.append(dict(sig=dict(oracle="mach_continuity", observable="sec_forces"), msg="|F(M=%g)-F(0)|/|F| = %.2e exceeds 20 M^2" % (lad[k], d[k]), measure=float(d[k])))
            if k > 1 and not d[k] >= d[k - 1] - 1e-10:
                viol.append(dict(sig=dict(oracle="mach_monotone", observable="sec_forces"), msg="departure from M=0 not increasing along the ladder", measure=float(d[k])))
        tr = len(lad)
        # (2) every result is an even, smooth function of M near 0: F(M) = F(0) + c M^2 + O(M^4).  On a logarithmic ladder the
        # quotient |F(M) - F(0)| / M^2 must therefore settle (a switch between formulas at some small Mach number makes it jump)
        p = aero(ms, syms, s["alpha"], 0.0, 0.0, True)

        def F_at(M):
            p.set_val("Mach_number", M)
            p.run_model()
            return np.concatenate([F.ravel() for F in forces(p, n)])

        F0 = F_at(0.0)
        lad2 = [1e-5, 1e-4, 1e-3, 2e-3, 5e-3, 1e-2, 2e-2, 5e-2]
        r = np.array([np.abs(F_at(M) - F0).max() / sc / M**2 for M in lad2])
        tr += len(lad2) + 1
        if r[-1] > 1e-3:
            for k, M in enumerate(lad2[:-1]):
                validated += 1
                noise = 1e-13 / M**2
                if not abs(r[k] - r[-1]) <= 0.05 * r[-1] + noise:
                    viol.append(dict(sig=dict(oracle="mach_continuity_quotient", observable="sec_forces"), msg="|F(M)-F(0)|/M^2 is %.4g at M=%g but %.4g at M=%g: the results do not vary smoothly with Mach near 0" % (r[k], M, r[-1], lad2[-1]), measure=float(abs(r[k] - r[-1]) / r[-1])))
        # (3) fine sweep up to M = 0.9: consecutive increments of a smooth function change slowly; a jump at a threshold adds its
        # height to one increment
        grid = list(np.arange(2.5e-3, 0.1, 5e-4)) + list(np.arange(0.1, 0.9001, 2.5e-3))
        Fg = [F_at(float(M)) for M in grid]
        tr += len(grid)
        D = np.array([np.abs(Fg[i + 1] - Fg[i]).max() / sc / (grid[i + 1] - grid[i]) for i in range(len(grid) - 1)])
        for i in range(1, len(D)):
            validated += 1
            if not abs(D[i] - D[i - 1]) <= 0.3 * max(D[i], D[i - 1]) + 1e-9:
                viol.append(dict(sig=dict(oracle="mach_continuity_sweep", observable="sec_forces"), msg="increment of the forces per unit Mach changes from %.4g to %.4g between M=%.4f and M=%.4f: jump" % (D[i - 1], D[i], grid[i], grid[i + 1]), measure=float(abs(D[i] - D[i - 1]) / max(D[i], D[i - 1]))))
                break
        nt = d[-1] > 1e-6
        dg = digest_arrays(np.array(d), r)
    return dict(viol=viol, nontrivial=bool(nt), digest=dg, transitions=tr, validated=validated)
