"""C06 - dynamic-pressure, length-scale and translation laws; L/D are components of the summed forces."""
import itertools

import numpy as np

from oasmc import builders, gen
from oasmc.checks.c05 import mesh_of
from oasmc.engine import digest_arrays

ID = "C06"
RULE = (
    "complete product of base configuration (surface set, alpha, beta, viscous, ground effect) x transformation (density, speed, "
    "length scale k, translation t); each state runs the real AeroPoint on the base and the transformed configuration and checks the "
    "scaling law on every output, plus the L/D/coefficient composition identities in the base state; non-trivial = forces non-zero"
)
ASSUMPTIONS = ["finite alphabets for lambda, k, t, alpha, beta (both signs); <=2 surfaces (all-half, all-full, mixed symmetry, down-loaded tail with negative induced drag), nx<=3", "OpenMDAO/NumPy/SciPy trusted"]
BOUND = {"quick": "k in {1e-3,0.5,2,1e2}", "thorough": "k in {1e-5..1e4}"}
TOL = 1e-9


def base_sets(tier):
    out = []
    pfs = ["swept", "twdi"] + (["camber", "rect"] if tier == "thorough" else [])
    for pf in pfs:
        for nx, side, ny in [(2, "left", 3), (3, "full", 5), (3, "right", 3)] + ([(4, "left", 4), (2, "full", 7)] if tier == "thorough" else []):
            if pf == "camber" and nx < 3:
                continue
            out.append([dict(pf=pf, nx=nx, ny=ny, side=side, off=None)])
    out.append([dict(pf="swept", nx=3, ny=5, side="full", off=None), dict(pf="rect", nx=2, ny=3, side="full", off=[5.0, 0.3, 0.7], span=3.0, chord=0.8)])
    out.append([dict(pf="twdi", nx=2, ny=3, side="left", off=None), dict(pf="rect", nx=3, ny=2, side="left", off=[5.0, 0.0, 0.7], span=3.0, chord=0.8)])
    # a down-loaded tail in the wing's downwash (its induced drag is negative at positive alpha) and an up-loaded canard-like one
    out.append([dict(pf="swept", nx=2, ny=3, side="left", off=None), dict(pf="rect", nx=2, ny=3, side="left", off=[4.0, 0.0, 0.3], span=3.0, chord=0.8, pitch=-10.0)])
    out.append([dict(pf="swept", nx=3, ny=5, side="full", off=None), dict(pf="rect", nx=2, ny=3, side="full", off=[4.0, 0.0, 0.3], span=3.0, chord=0.8, pitch=-10.0)])
    # lists with different symmetry settings (half-model wing + full-span tail, and the reverse)
    out.append([dict(pf="twdi", nx=2, ny=3, side="left", off=None), dict(pf="rect", nx=3, ny=3, side="full", off=[5.0, 0.0, 0.7], span=3.0, chord=0.8)])
    out.append([dict(pf="swept", nx=3, ny=5, side="full", off=None), dict(pf="rect", nx=2, ny=2, side="left", off=[5.0, 0.0, 0.7], span=3.0, chord=0.8)])
    return out


def transforms(tier):
    T = [("rho", 0.5), ("rho", 3.0), ("v", 0.5), ("v", 3.0)]
    ks = [1e-3, 0.5, 2.0, 1e2] + ([1e-5, 1e-4, 1e3, 1e4] if tier == "thorough" else [])
    T += [("k", k) for k in ks]
    T += [("t", [3.0, 0.0, 0.0]), ("t", [0.0, 0.0, 2.0]), ("t", [1.0, 0.0, -1.0]), ("t", [0.0, 4.0, 0.0]), ("tstream", 2.5)]
    return T


def states(tier, seed):
    fam = seed % 3
    st, inadm = [], 0
    # viscous option: off, on with the usual laminar fraction, on fully laminar (k_lam = 1: its own branch of the drag model),
    # thorough also fully turbulent (k_lam = 0)
    vmenu = [False, 0.05, 1.0] if tier == "quick" else [False, 0.05, 1.0, 0.0]
    for ss, al, be, visc, ground, tr in itertools.product(base_sets(tier), [5.0, -3.0], [0.0, 4.0, -6.0], vmenu, [False, True], transforms(tier)):
        sym = all(s["side"] != "full" for s in ss)
        anysym = any(s["side"] != "full" for s in ss)
        if anysym and be != 0.0:
            inadm += 1
            continue
        if ground and not sym:
            inadm += 1
            continue
        if tr[0] == "t" and tr[1][1] != 0.0 and (anysym or ground):
            inadm += 1
            continue
        if visc is not False and visc != 0.05 and (ground or tr[0] not in ("k", "rho", "v")):
            continue  # the extra laminar fractions are crossed with the scaling transformations only
        st.append(dict(surfs=ss, alpha=al, beta=be, visc=visc is not False, k_lam=(visc if visc is not False else 0.05), ground=ground, tr=list(tr), fam=fam))
    return st, inadm


H0 = 3.0
CG0 = np.array([0.4, 0.0, 0.15])


def run_model(meshes, syms, s, v=60.0, rho=1.1, re=1.0e6, cg=CG0, h=H0):
    surfs = []
    for k, (m, sy) in enumerate(zip(meshes, syms)):
        # viscous states also carry non-zero zero-alpha coefficients, different per surface (CL = CL1 + CL0 is what the aircraft sums use)
        kw = dict(with_viscous=s["visc"], CD0=0.01 * (k + 1) if s["visc"] else 0.0, CL0=0.04 * (k + 1) if s["visc"] else 0.0, k_lam=s.get("k_lam", 0.05))
        if s["ground"]:
            kw["groundplane"] = True
        surfs.append(builders.aero_surface("s%d" % k, m, sy, **kw))
    fl = dict(v=v, alpha=s["alpha"], beta=s["beta"], rho=rho, re=re, Mach_number=0.3, cg=list(cg))
    if s["ground"]:
        fl["height_agl"] = h
    p = builders.build_aero(surfs, fl)
    p.run_model()
    n = len(meshes)
    out = dict(
        F=[p["ap.aero_states.s%d_sec_forces" % k].copy() for k in range(n)],
        CL=p["ap.CL"][0],
        CD=p["ap.CD"][0],
        CM=p["ap.CM"].copy(),
        Lt=p["ap.total_perf.L"][0],
        Dt=p["ap.total_perf.D"][0],
        L=[p["ap.s%d_perf.L" % k][0] for k in range(n)],
        D=[p["ap.s%d_perf.D" % k][0] for k in range(n)],
        CL1=[p["ap.s%d_perf.CL1" % k][0] for k in range(n)],
        CDi=[p["ap.s%d_perf.CDi" % k][0] for k in range(n)],
        CLs=[p["ap.s%d_perf.CL" % k][0] for k in range(n)],
        CDs=[p["ap.s%d_perf.CD" % k][0] for k in range(n)],
        CDv=[p["ap.s%d_perf.CDv" % k][0] for k in range(n)],
        Cl=[p["ap.s%d_perf.Cl" % k].copy() for k in range(n)],
        S=[p["ap.s%d.S_ref" % k][0] for k in range(n)],
    )
    return out


def run_state(s):
    pairs = [mesh_of(sp, s["fam"]) for sp in s["surfs"]]
    ms = [m for m, _ in pairs]
    syms = [sy for _, sy in pairs]
    n = len(ms)
    kind, val = s["tr"]
    v, rho, re, cg, h = 60.0, 1.1, 1.0e6, CG0.copy(), H0
    base = run_model(ms, syms, s, v, rho, re, cg, h)
    fF = 1.0
    ms2 = ms
    a = np.radians(s["alpha"])
    nhat = np.array([np.sin(a), 0.0, -np.cos(a)])
    if kind == "rho":
        tr = run_model(ms, syms, s, v, rho * val, re, cg, h)
        fF = val
    elif kind == "v":
        tr = run_model(ms, syms, s, v * val, rho, re, cg, h)
        fF = val**2
    elif kind == "k":
        tr = run_model([m * val for m in ms], syms, s, v, rho, re / val, cg * val, h * val)
        fF = val**2
    elif kind == "t":
        t = np.array(val)
        tr = run_model([m + t for m in ms], syms, s, v, rho, re, cg + t, h + t @ nhat)
    else:
        t = val * np.array([np.cos(a), 0.0, np.sin(a)])
        tr = run_model([m + t for m in ms], syms, s, v, rho, re, cg + t, h)
    viol, validated = [], 0
    wh = dict(transform=kind, ground=s["ground"], visc=s["visc"], k_lam=s.get("k_lam", 0.05))
    if kind == "k":
        wh["k"] = val
    Fsc = max(max(np.abs(F).max() for F in base["F"]), gen.force_floor(rho, v, ms))

    def cmp(name, a_, b_, sc=None):
        nonlocal validated
        validated += 1
        a_ = np.asarray(a_, float)
        b_ = np.asarray(b_, float)
        scale = sc if sc is not None else max(np.abs(b_).max(), 1e-6)
        e = np.abs(a_ - b_).max() / scale
        if not e <= TOL:
            viol.append(dict(sig=dict(oracle="scaling_law", observable=name, **wh), msg="%s violates the %s law (value %s) by %.2e" % (name, kind, val, e), measure=float(e)))

    for k in range(n):
        cmp("sec_forces", tr["F"][k] / fF, base["F"][k], Fsc)
        for q in ("CL1", "CDi", "CLs", "CDs", "CDv", "Cl"):
            cmp(q, tr[q][k], base[q][k])
        cmp("L", tr["L"][k] / fF, base["L"][k], Fsc)
        cmp("D", tr["D"][k] / fF, base["D"][k], Fsc)
    cmp("CL", tr["CL"], base["CL"])
    cmp("CD", tr["CD"], base["CD"])
    cmp("CM", tr["CM"], base["CM"], max(np.abs(base["CM"]).max(), 1e-3))
    cmp("total L", tr["Lt"] / fF, base["Lt"], Fsc)
    cmp("total D", tr["Dt"] / fF, base["Dt"], Fsc)

    # composition identities in the base state
    b = np.radians(s["beta"])
    eL = np.array([-np.sin(a), 0.0, np.cos(a)])
    eD = np.array([np.cos(a) * np.cos(b), -np.sin(b), np.sin(a) * np.cos(b)])
    q = 0.5 * rho * v * v
    wi = dict(ground=s["ground"], visc=s["visc"])
    for k in range(n):
        mult = 2.0 if syms[k] else 1.0
        Fsum = base["F"][k].reshape(-1, 3).sum(axis=0)
        for nm, e_, got in (("L", eL, base["L"][k]), ("D", eD, base["D"][k])):
            validated += 1
            want = mult * Fsum @ e_
            if not abs(got - want) <= TOL * Fsc * base["F"][k].size:
                viol.append(dict(sig=dict(oracle="lift_drag_components", observable=nm, sym=bool(syms[k]), **wi), msg="%s=%.10g but summed panel forces give %.10g" % (nm, got, want), measure=float(abs(got - want))))
        for nm, coef, frc in (("CL1", base["CL1"][k], base["L"][k]), ("CDi", base["CDi"][k], base["D"][k])):
            validated += 1
            want = frc / (q * base["S"][k])
            if not abs(coef - want) <= TOL * max(abs(want), 1e-3):
                viol.append(dict(sig=dict(oracle="coefficient_definition", observable=nm, **wi), msg="%s=%.10g but force/(qS)=%.10g" % (nm, coef, want), measure=float(abs(coef - want))))
    St = sum(base["S"])
    for nm, tot, parts in (("CL", base["CL"], base["CLs"]), ("CD", base["CD"], base["CDs"])):
        validated += 1
        want = sum(c * S for c, S in zip(parts, base["S"])) / St
        if not abs(tot - want) <= TOL * max(abs(want), 1e-3):
            viol.append(dict(sig=dict(oracle="area_weighted_sum", observable=nm, nsurf=n, **wi), msg="aircraft %s=%.10g but area-weighted sum=%.10g" % (nm, tot, want), measure=float(abs(tot - want))))
    return dict(viol=viol, nontrivial=bool(Fsc > 1e-9), digest=digest_arrays(*(base["F"] + tr["F"])), transitions=2, validated=validated)
