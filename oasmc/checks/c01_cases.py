"""Registry of component cases for C01 (and reused by C03): component factory, configuration axes,
input points.  Every input not named explicitly gets a generic value from gen()."""
import itertools

import numpy as np

from oasmc import builders, gen as G

CASES = {}


class Case:
    def __init__(self, name, cfgs, make, point, opts=None, tags=(), kinds=None):
        self.name, self.cfgs, self.make, self._point, self.opts, self.tags, self.kinds = name, cfgs, make, point, opts or {}, tags, kinds
        CASES[name] = self

    def point(self, s, kind):
        """dict of explicit input values (+ optional '*': callable(name, shape, k)) or None for declared defaults"""
        if kind == "default":
            return None
        return self._point(s, kind)


def sig_tags(s):
    c = CASES[s["comp"]]
    d = {t: s["cfg"].get(t) for t in c.tags}
    d["point"] = s["kind"]
    return d


def enumerate_states(tier, fam):
    st = []
    for name, c in CASES.items():
        kinds = ["special", "gen0"] if tier == "quick" else ["default", "special", "gen0", "gen1"]
        if c.kinds is not None:
            kinds = [k for k in kinds if k in c.kinds]
        for cfg in c.cfgs(tier):
            for k in kinds:
                st.append(dict(comp=name, cfg=cfg, kind=k, fam=fam))
            # "flat": every mesh-like input EXACTLY planar (z = 0: zero dihedral, zero camber - a structural special value that no
            # generic perturbation hits), all other inputs generic and non-zero; only where the component has such an input
            # not for WingboxGeometry: its section twist is |angle| = arccos(...) of the chord vector, which has a kink (no
            # derivative) at exactly zero twist - a non-smooth point, DESIGN section 4
            if (c.kinds is None or "gen0" in c.kinds) and name not in ("WingboxGeometry",):
                s0 = dict(comp=name, cfg=cfg, kind="gen0", fam=fam)
                try:
                    pa, pb = c._point(s0, "gen0"), c._point(dict(s0, kind="flat"), "flat")
                except Exception:
                    continue
                if isinstance(pa, dict) and any(isinstance(v, np.ndarray) and v.ndim >= 2 and v.shape[-1] == 3 and not np.array_equal(v, pb.get(k_)) for k_, v in pa.items()):
                    st.append(dict(comp=name, cfg=cfg, kind="flat", fam=fam))
    return st, 0


def koff(kind):
    return {"gen0": 0, "gen1": 1, "special": 0}.get(kind, 0)


def gv(shape, k, lo, hi, s, kind):
    return G.gen(shape, k + 31 * koff(kind), lo, hi, s["fam"])


def msh(cfg, fam, pf=None, nx=None, ny=None, side=None, **kw):
    side = side or cfg.get("side", "left")
    # gscale: the same lattice at model scale (millimetre chords): derivatives of lengths / areas / directions carry no absolute length
    return cfg.get("gscale", 1.0) * G.make_mesh(pf or cfg.get("pf", "twdi"), nx or cfg.get("nx", 2), ny or cfg.get("ny", 3), side, fam, asym=(side == "full"), **kw)


def perturbed(m, s, kind, amp=0.03):
    """a generic (non-rigid) perturbation of a mesh: different for the two generic points"""
    if kind == "flat":
        f = m.copy()
        f[:, :, 2] = 0.0
        return f
    k = koff(kind)
    return m + amp * np.sin((1.3 + 0.4 * k) * m[:, :, [1, 0, 1]] + np.array([0.2, 0.5, 0.9]) + k)


def shape_axes(tier, sides=("left", "full", "right"), nxs=None):
    nxs = nxs or ([2, 3] if tier == "quick" else [2, 3, 4])
    nyq = {"left": [3], "right": [3], "full": [5]} if tier == "quick" else {"left": [2, 3, 4], "right": [3], "full": [3, 5]}
    out = []
    for nx in nxs:
        for side in sides:
            for ny in nyq[side]:
                out.append(dict(nx=nx, ny=ny, side=side))
    if tier == "quick" and 4 not in nxs and 3 in nxs:
        # nx = 4 is the smallest mesh with an interior chordwise panel row (nx = 3 has only a first and a last row): one
        # such configuration per component stays in the quick tier
        out.append(dict(nx=4, ny=nyq[sides[0]][0], side=sides[0]))
    return out


def sym_of(cfg):
    return cfg.get("side", "left") != "full"


# ============================================================ geometry transformations
from openaerostruct.geometry import geometry_mesh_transformations as T  # noqa: E402

RAPS = [0.25, 0.0, 0.6, 1.0]


def _cfg_geo(rap=True, sides=("left", "full", "right")):
    def f(tier):
        out = []
        for sh in shape_axes(tier, sides):
            for r in RAPS if rap else [None]:
                d = dict(sh, pf="twdi")
                if r is not None:
                    d["rap"] = r
                out.append(d)
        return out

    return f


def _mesh_in(s, kind):
    gs = s["cfg"].get("gscale", 1.0)
    return gs * perturbed(msh(s["cfg"], s["fam"]) / gs, s, kind)


Case(
    "Taper",
    _cfg_geo(sides=("left", "full")),
    lambda s: T.Taper(val=1.0, mesh=msh(s["cfg"], s["fam"]), symmetry=sym_of(s["cfg"]), ref_axis_pos=s["cfg"]["rap"]),
    lambda s, kind: {"taper": 1.0 if kind == "special" else (0.7 if kind == "gen0" else 1.4)},
    tags=("side",),
)
Case(
    "ScaleX",
    _cfg_geo(),
    lambda s: T.ScaleX(val=np.ones(s["cfg"]["ny"]), mesh_shape=(s["cfg"]["nx"], s["cfg"]["ny"], 3), ref_axis_pos=s["cfg"]["rap"]),
    lambda s, kind: {"in_mesh": _mesh_in(s, kind), "chord": np.ones(s["cfg"]["ny"]) if kind == "special" else gv((s["cfg"]["ny"],), 2, 0.6, 1.4, s, kind)},
    tags=("side",),
)
Case(
    "Sweep",
    _cfg_geo(rap=False),
    lambda s: T.Sweep(val=0.0, mesh_shape=(s["cfg"]["nx"], s["cfg"]["ny"], 3), symmetry=sym_of(s["cfg"])),
    lambda s, kind: {"in_mesh": _mesh_in(s, kind), "sweep": 0.0 if kind == "special" else (12.0 if kind == "gen0" else -25.0)},
    tags=("side",),
)
Case(
    "ShearX",
    _cfg_geo(rap=False),
    lambda s: T.ShearX(val=np.zeros(s["cfg"]["ny"]), mesh_shape=(s["cfg"]["nx"], s["cfg"]["ny"], 3)),
    lambda s, kind: {"in_mesh": _mesh_in(s, kind), "xshear": np.zeros(s["cfg"]["ny"]) if kind == "special" else gv((s["cfg"]["ny"],), 2, -0.3, 0.4, s, kind)},
)
Case(
    "Stretch",
    _cfg_geo(),
    lambda s: T.Stretch(val=8.0, mesh_shape=(s["cfg"]["nx"], s["cfg"]["ny"], 3), symmetry=sym_of(s["cfg"]), ref_axis_pos=s["cfg"]["rap"]),
    lambda s, kind: {"in_mesh": _mesh_in(s, kind), "span": 8.0 if kind == "special" else (9.5 if kind == "gen0" else 6.1)},
    tags=("side",),
)
Case(
    "ShearY",
    _cfg_geo(rap=False),
    lambda s: T.ShearY(val=np.zeros(s["cfg"]["ny"]), mesh_shape=(s["cfg"]["nx"], s["cfg"]["ny"], 3)),
    lambda s, kind: {"in_mesh": _mesh_in(s, kind), "yshear": np.zeros(s["cfg"]["ny"]) if kind == "special" else gv((s["cfg"]["ny"],), 2, -0.1, 0.1, s, kind)},
)
Case(
    "Dihedral",
    _cfg_geo(rap=False),
    lambda s: T.Dihedral(val=0.0, mesh_shape=(s["cfg"]["nx"], s["cfg"]["ny"], 3), symmetry=sym_of(s["cfg"])),
    lambda s, kind: {"in_mesh": _mesh_in(s, kind), "dihedral": 0.0 if kind == "special" else (7.0 if kind == "gen0" else -11.0)},
    tags=("side",),
)
Case(
    "ShearZ",
    _cfg_geo(rap=False),
    lambda s: T.ShearZ(val=np.zeros(s["cfg"]["ny"]), mesh_shape=(s["cfg"]["nx"], s["cfg"]["ny"], 3)),
    lambda s, kind: {"in_mesh": _mesh_in(s, kind), "zshear": np.zeros(s["cfg"]["ny"]) if kind == "special" else gv((s["cfg"]["ny"],), 2, -0.3, 0.4, s, kind)},
)


def _cfg_rot(tier):
    out = []
    for d in _cfg_geo()(tier):
        # rotate_x=False is not reachable through any public group or surface-dictionary key (GeometryMesh always uses the
        # default True), so it is outside the configuration space the property quantifies over
        for rx in (True,):
            out.append(dict(d, rotate_x=rx))
    return out


Case(
    "Rotate",
    _cfg_rot,
    lambda s: T.Rotate(val=np.zeros(s["cfg"]["ny"]), mesh_shape=(s["cfg"]["nx"], s["cfg"]["ny"], 3), symmetry=sym_of(s["cfg"]), ref_axis_pos=s["cfg"]["rap"], rotate_x=s["cfg"]["rotate_x"]),
    lambda s, kind: {"in_mesh": _mesh_in(s, kind), "twist": np.zeros(s["cfg"]["ny"]) if kind == "special" else gv((s["cfg"]["ny"],), 3, -4.0, 5.0, s, kind)},
    tags=("side", "rotate_x"),
)

# ============================================================ aerodynamics
from openaerostruct.aerodynamics.geometry import VLMGeometry  # noqa: E402


def _surf(name, cfg, fam, **kw):
    m = msh(cfg, fam)
    d = dict(with_viscous=True, with_wave=True)
    d.update(kw)
    return builders.aero_surface(name, m, sym_of(cfg), **d)


def _cfg_vlmgeo(tier):
    out = [dict(sh, pf="twdi", sref=t) for sh in shape_axes(tier) for t in ("wetted", "projected")]
    # model scale: 1.5 mm chord, chordwise segments of 0.4 - 0.8 mm
    out += [dict(nx=nx, ny=3, side="left", pf="twdi", sref=t, gscale=1.0e-3) for nx in (3, 4) for t in ("wetted", "projected")]
    return out


Case(
    "VLMGeometry",
    _cfg_vlmgeo,
    lambda s: VLMGeometry(surface=_surf("w", s["cfg"], s["fam"], S_ref_type=s["cfg"]["sref"])),
    lambda s, kind: {"def_mesh": _mesh_in(s, kind)},
    tags=("side", "sref"),
    kinds=("gen0", "gen1"),
)


def two_surfs(cfg, fam, ground=False):
    """two surfaces of different sizes on the same side (offset bookkeeping)"""
    side = cfg["side"]
    a = msh(cfg, fam)
    ny2 = {"left": 4, "right": 4, "full": 3}[side]
    b = G.make_mesh("swept", 2, ny2, side, fam, asym=(side == "full"), span=5.0, chord=0.9, offset=[4.0, 0.0, 0.5])
    kw = dict(groundplane=True) if ground else {}
    S = [builders.aero_surface("a", a, side != "full", with_viscous=True, with_wave=True, **kw)]
    if cfg.get("nsurf", 2) == 2:
        S.append(builders.aero_surface("b", b, side != "full", with_viscous=True, with_wave=True, **kw))
    return S


def npanels(S):
    return sum((x["mesh"].shape[0] - 1) * (x["mesh"].shape[1] - 1) for x in S)


def _cfg_multi(ground=True, nsurfs=(1, 2)):
    def f(tier):
        out = []
        for sh in shape_axes(tier):
            for ns in nsurfs:
                for g in (False, True) if ground else (False,):
                    if g and sh["side"] == "full":
                        continue
                    out.append(dict(sh, pf="twdi", nsurf=ns, ground=g))
        return out

    return f


def _meshes_pt(s, kind, S=None):
    S = S or two_surfs(s["cfg"], s["fam"], s["cfg"].get("ground", False))
    d = {x["name"] + "_def_mesh": perturbed(x["mesh"], s, kind) for x in S}
    return d


from openaerostruct.aerodynamics.vortex_mesh import VortexMesh  # noqa: E402


def _vm_pt(s, kind):
    d = _meshes_pt(s, kind)
    if s["cfg"]["ground"]:
        d["height_agl"] = 5.0 if kind != "gen1" else 12.0
        d["alpha"] = 0.0 if kind == "special" else (0.07 if kind == "gen0" else -0.05)
    return d


Case("VortexMesh", _cfg_multi(), lambda s: VortexMesh(surfaces=two_surfs(s["cfg"], s["fam"], s["cfg"]["ground"])), _vm_pt, tags=("side", "ground", "nsurf"), opts=dict(typ={"alpha": 0.1}))

from openaerostruct.aerodynamics.collocation_points import CollocationPoints  # noqa: E402

Case("CollocationPoints", _cfg_multi(ground=False), lambda s: CollocationPoints(surfaces=two_surfs(s["cfg"], s["fam"])), _meshes_pt, tags=("side", "nsurf"), kinds=("gen0",))

from openaerostruct.aerodynamics.get_vectors import GetVectors  # noqa: E402


def _gv_make(s):
    S = two_surfs(s["cfg"], s["fam"], s["cfg"]["ground"])
    return GetVectors(surfaces=S, num_eval_points=npanels(S), eval_name="coll_pts")


Case("GetVectors", _cfg_multi(), _gv_make, lambda s, kind: {"*": lambda n, sh, k: gv(sh, k, -2.0, 2.0, s, kind)}, tags=("side", "ground", "nsurf"), kinds=("gen0",))

from openaerostruct.aerodynamics.eval_mtx import EvalVelMtx  # noqa: E402


def _evm_make(s):
    S = two_surfs(s["cfg"], s["fam"], s["cfg"]["ground"])
    return EvalVelMtx(surfaces=S, num_eval_points=npanels(S), eval_name=s["cfg"].get("eval", "coll_pts"))


def _evm_pt(s, kind):
    def fill(n, sh, k):
        if n == "alpha":
            return np.array([0.0 if kind == "special" else (3.0 if kind == "gen0" else -6.0)])
        return gv(sh, k, -2.0, 2.0, s, kind) + (np.arange(int(np.prod(sh))).reshape(sh) % 7) * 0.3

    return {"*": fill}


def _cfg_evm(tier):
    out = []
    for d in _cfg_multi()(tier):
        if tier == "quick" and d["nx"] == 3 and d["nsurf"] == 2 and d["ground"]:
            continue
        out.append(d)
        # the same component is instantiated a second time with the force points as evaluation points
        if d["nx"] == 2 and (tier == "thorough" or d["nsurf"] == 2):
            out.append(dict(d, eval="force_pts"))
    return out


Case("EvalVelMtx", _cfg_evm, _evm_make, _evm_pt, tags=("side", "ground", "nsurf", "eval"), opts=dict(typ={"alpha": 1.0}))

from openaerostruct.aerodynamics.mtx_rhs import VLMMtxRHSComp  # noqa: E402

Case("VLMMtxRHSComp", _cfg_multi(ground=False), lambda s: VLMMtxRHSComp(surfaces=two_surfs(s["cfg"], s["fam"])), lambda s, kind: {"*": lambda n, sh, k: gv(sh, k, -1.0, 2.0, s, kind)}, tags=("nsurf",), kinds=("gen0", "gen1"))

from openaerostruct.aerodynamics.solve_matrix import SolveMatrix  # noqa: E402


def _sm_pt(s, kind):
    n = npanels(two_surfs(s["cfg"], s["fam"]))
    return {"mtx": np.eye(n) * 3 + gv((n, n), 1, -0.3, 0.3, s, kind), "rhs": gv((n,), 2, -1.0, 2.0, s, kind)}


Case("SolveMatrix", _cfg_multi(ground=False), lambda s: SolveMatrix(surfaces=two_surfs(s["cfg"], s["fam"])), _sm_pt, tags=("nsurf",), kinds=("gen0", "gen1"))

from openaerostruct.aerodynamics.horseshoe_circulations import HorseshoeCirculations  # noqa: E402

Case("HorseshoeCirculations", _cfg_multi(ground=False), lambda s: HorseshoeCirculations(surfaces=two_surfs(s["cfg"], s["fam"])), lambda s, kind: {}, tags=("nsurf",), kinds=("gen0",))

from openaerostruct.aerodynamics.eval_velocities import EvalVelocities  # noqa: E402


def _ev_make(s):
    S = two_surfs(s["cfg"], s["fam"])
    return EvalVelocities(surfaces=S, num_eval_points=npanels(S), eval_name="force_pts")


Case("EvalVelocities", _cfg_multi(ground=False), _ev_make, lambda s, kind: {"*": lambda n, sh, k: gv(sh, k, -1.0, 2.0, s, kind)}, tags=("nsurf",), kinds=("gen0", "gen1"))

from openaerostruct.aerodynamics.panel_forces import PanelForces  # noqa: E402
from openaerostruct.aerodynamics.panel_forces_surf import PanelForcesSurf  # noqa: E402
from openaerostruct.aerodynamics.mesh_point_forces import MeshPointForces  # noqa: E402
from openaerostruct.aerodynamics.rotational_velocity import RotationalVelocity  # noqa: E402
from openaerostruct.aerodynamics.convert_velocity import ConvertVelocity  # noqa: E402

_gen_all = lambda s, kind: {"*": lambda n, sh, k: gv(sh, k, -1.0, 2.0, s, kind)}  # noqa: E731
Case("PanelForces", _cfg_multi(ground=False), lambda s: PanelForces(surfaces=two_surfs(s["cfg"], s["fam"])), _gen_all, tags=("nsurf",), kinds=("gen0", "gen1"))
Case("PanelForcesSurf", _cfg_multi(ground=False), lambda s: PanelForcesSurf(surfaces=two_surfs(s["cfg"], s["fam"])), _gen_all, tags=("nsurf",), kinds=("gen0",))
Case("MeshPointForces", _cfg_multi(ground=False), lambda s: MeshPointForces(surfaces=two_surfs(s["cfg"], s["fam"])), _gen_all, tags=("nsurf",), kinds=("gen0",))


def _rv_pt(s, kind):
    d = _gen_all(s, kind)
    if kind == "special":
        d["omega"] = np.zeros(3)
    return d


Case("RotationalVelocity", _cfg_multi(ground=False), lambda s: RotationalVelocity(surfaces=two_surfs(s["cfg"], s["fam"])), _rv_pt, tags=("nsurf",))


def _cfg_cv(tier):
    return [dict(d, rot=r) for d in _cfg_multi(ground=False)(tier) if d["nx"] == 2 for r in (False, True)]


def _cv_pt(s, kind):
    d = {"alpha": 0.0 if kind == "special" else (4.0 if kind == "gen0" else -7.0), "beta": 0.0 if kind == "special" else (-3.0 if kind == "gen0" else 9.0), "v": 50.0 if kind != "gen1" else 210.0}
    d["*"] = lambda n, sh, k: gv(sh, k, -3.0, 3.0, s, kind)
    return d


Case("ConvertVelocity", _cfg_cv, lambda s: ConvertVelocity(surfaces=two_surfs(s["cfg"], s["fam"]), rotational=s["cfg"]["rot"]), _cv_pt, tags=("rot",), opts=dict(typ={"alpha": 1.0, "beta": 1.0}))

from openaerostruct.aerodynamics.lift_drag import LiftDrag  # noqa: E402
from openaerostruct.aerodynamics.lift_coeff_2D import LiftCoeff2D  # noqa: E402
from openaerostruct.aerodynamics.coeffs import Coeffs  # noqa: E402
from openaerostruct.aerodynamics.total_lift import TotalLift  # noqa: E402
from openaerostruct.aerodynamics.total_drag import TotalDrag  # noqa: E402


def _ld_pt(s, kind):
    nx, ny = s["cfg"]["nx"], s["cfg"]["ny"]
    return {"alpha": 0.0 if kind == "special" else (4.0 if kind == "gen0" else -7.0), "beta": 0.0 if kind == "special" else (3.0 if kind == "gen0" else -9.0), "sec_forces": gv((nx - 1, ny - 1, 3), 2, -300.0, 900.0, s, kind)}


Case("LiftDrag", lambda tier: shape_axes(tier), lambda s: LiftDrag(surface=_surf("w", s["cfg"], s["fam"])), _ld_pt, tags=("side",), opts=dict(typ={"alpha": 1.0, "beta": 1.0}))


def _l2_pt(s, kind):
    nx, ny = s["cfg"]["nx"], s["cfg"]["ny"]
    return {"alpha": 0.0 if kind == "special" else (4.0 if kind == "gen0" else -7.0), "sec_forces": gv((nx - 1, ny - 1, 3), 2, -300.0, 900.0, s, kind), "widths": gv((ny - 1,), 3, 1.0, 1.5, s, kind), "chords": gv((ny,), 4, 0.8, 1.6, s, kind), "v": 60.0, "rho": 1.1}


Case("LiftCoeff2D", lambda tier: shape_axes(tier), lambda s: LiftCoeff2D(surface=_surf("w", s["cfg"], s["fam"])), _l2_pt, tags=("side",), opts=dict(typ={"alpha": 1.0}))
_one = lambda tier: [dict()]  # noqa: E731
Case("Coeffs", _one, lambda s: Coeffs(), lambda s, kind: {"S_ref": 12.0, "L": gv((), 1, 1e3, 5e3, s, kind), "D": gv((), 2, 50.0, 300.0, s, kind), "v": 60.0, "rho": 1.1}, kinds=("gen0", "gen1"))
Case("TotalLift", _one, lambda s: TotalLift(surface=dict(_surf("w", dict(nx=2, ny=3, side="left"), 0), CL0=0.1)), lambda s, kind: {"CL1": gv((), 1, 0.1, 0.7, s, kind)}, kinds=("gen0",))


def _cfg_td(tier):
    return [dict(visc=v, wave=w) for v in (False, True) for w in (False, True)]


Case(
    "TotalDrag",
    _cfg_td,
    lambda s: TotalDrag(surface=dict(_surf("w", dict(nx=2, ny=3, side="left"), 0), CD0=0.01, with_viscous=s["cfg"]["visc"], with_wave=s["cfg"]["wave"])),
    lambda s, kind: {"CDi": 0.01, "CDv": 0.006, "CDw": 0.002},
    tags=("visc", "wave"),
    kinds=("gen0",),
)

from openaerostruct.aerodynamics.viscous_drag import ViscousDrag  # noqa: E402
from openaerostruct.aerodynamics.wave_drag import WaveDrag  # noqa: E402


def _cfg_vd(tier):
    return [dict(sh, pf="twdi", k_lam=k, visc=True) for sh in shape_axes(tier, nxs=[2]) for k in (0.05, 0.0, 1.0)] + [dict(nx=2, ny=3, side="left", pf="twdi", k_lam=0.05, visc=False)]


def _vd_pt(s, kind):
    ny = s["cfg"]["ny"]
    return {"re": 2e6 if kind != "gen1" else 3e7, "Mach_number": 0.5 if kind != "gen1" else 0.84, "S_ref": 14.0, "t_over_c": gv((ny - 1,), 2, 0.08, 0.16, s, kind), "lengths_spanwise": gv((ny - 1,), 3, 1.5, 2.0, s, kind), "widths": gv((ny - 1,), 4, 1.0, 1.4, s, kind), "lengths": gv((ny,), 5, 1.0, 1.6, s, kind)}


Case(
    "ViscousDrag",
    _cfg_vd,
    lambda s: ViscousDrag(surface=_surf("w", s["cfg"], s["fam"], k_lam=s["cfg"]["k_lam"], with_viscous=s["cfg"]["visc"])),
    _vd_pt,
    tags=("side", "k_lam", "visc"),
    kinds=("gen0", "gen1"),
)


def _cfg_wd(tier):
    return [dict(sh, pf="twdi", M=M, wave=True) for sh in shape_axes(tier, nxs=[2]) for M in (0.6, 0.9)] + [dict(nx=2, ny=3, side="left", pf="twdi", M=0.9, wave=False)]


def _wd_pt(s, kind):
    ny = s["cfg"]["ny"]
    # the second generic point lies on the OTHER side of the crest-critical Mach number, so that the two linearisations of a
    # state (another point first, then the state's point) always straddle the component's input-dependent branch
    M = s["cfg"]["M"] if kind != "gen1" else (0.92 if s["cfg"]["M"] < 0.75 else 0.58)
    return {"Mach_number": M, "CL": 0.5, "t_over_c": gv((ny - 1,), 2, 0.08, 0.16, s, kind), "lengths_spanwise": gv((ny - 1,), 3, 1.5, 2.0, s, kind), "widths": gv((ny - 1,), 4, 1.0, 1.4, s, kind), "chords": gv((ny,), 5, 1.0, 1.6, s, kind)}


Case("WaveDrag", _cfg_wd, lambda s: WaveDrag(surface=dict(_surf("w", s["cfg"], s["fam"]), with_wave=s["cfg"]["wave"])), _wd_pt, tags=("side", "M", "wave"), kinds=("gen0", "gen1"))

from openaerostruct.aerodynamics.pg_scale import ScaleFromPrandtlGlauert, ScaleToPrandtlGlauert  # noqa: E402
from openaerostruct.aerodynamics.pg_wind_rotation import RotateFromWindFrame, RotateToWindFrame  # noqa: E402


def _cfg_pg(tier):
    return [dict(sh, pf="twdi", nsurf=ns, rot=r) for sh in shape_axes(tier, nxs=[2] if tier == "quick" else [2, 3]) for ns in (1, 2) for r in (False, True)]


def _pg_pt(s, kind):
    d = {"Mach_number": 0.0 if kind == "special" else (0.6 if kind == "gen0" else 0.84), "alpha": 0.0 if kind == "special" else (0.07 if kind == "gen0" else -0.12), "beta": 0.0 if kind == "special" else (0.05 if kind == "gen0" else -0.1)}
    d["*"] = lambda n, sh, k: gv(sh, k, -1.0, 2.0, s, kind)
    return d


Case("ScaleToPrandtlGlauert", _cfg_pg, lambda s: ScaleToPrandtlGlauert(surfaces=two_surfs(s["cfg"], s["fam"]), rotational=s["cfg"]["rot"]), _pg_pt, tags=("rot", "nsurf"), opts=dict(typ={"Mach_number": 0.5}))
Case("ScaleFromPrandtlGlauert", lambda tier: [c for c in _cfg_pg(tier) if not c["rot"]], lambda s: ScaleFromPrandtlGlauert(surfaces=two_surfs(s["cfg"], s["fam"])), _pg_pt, tags=("nsurf",), opts=dict(typ={"Mach_number": 0.5}))
Case("RotateToWindFrame", _cfg_pg, lambda s: RotateToWindFrame(surfaces=two_surfs(s["cfg"], s["fam"]), rotational=s["cfg"]["rot"]), _pg_pt, tags=("rot", "nsurf"), opts=dict(typ={"alpha": 0.1, "beta": 0.1}))
Case("RotateFromWindFrame", lambda tier: [c for c in _cfg_pg(tier) if not c["rot"]], lambda s: RotateFromWindFrame(surfaces=two_surfs(s["cfg"], s["fam"])), _pg_pt, tags=("nsurf",), opts=dict(typ={"alpha": 0.1, "beta": 0.1}))

# ============================================================ structures
from openaerostruct.structures.compute_nodes import ComputeNodes  # noqa: E402
from openaerostruct.structures.create_rhs import CreateRHS  # noqa: E402
from openaerostruct.structures.disp import Disp  # noqa: E402
from openaerostruct.structures.energy import Energy  # noqa: E402
from openaerostruct.structures.failure_exact import FailureExact  # noqa: E402
from openaerostruct.structures.failure_ks import FailureKS  # noqa: E402
from openaerostruct.structures.fem import FEM  # noqa: E402
from openaerostruct.structures.length import Length  # noqa: E402
from openaerostruct.structures.local_stiff import LocalStiff  # noqa: E402
from openaerostruct.structures.local_stiff_permuted import LocalStiffPermuted  # noqa: E402
from openaerostruct.structures.local_stiff_transformed import LocalStiffTransformed  # noqa: E402
from openaerostruct.structures.non_intersecting_thickness import NonIntersectingThickness  # noqa: E402
from openaerostruct.structures.section_properties_tube import SectionPropertiesTube  # noqa: E402
from openaerostruct.structures.structural_cg import StructuralCG  # noqa: E402
from openaerostruct.structures.total_loads import TotalLoads  # noqa: E402
from openaerostruct.structures.transform import Transform  # noqa: E402
from openaerostruct.structures.vonmises_tube import VonMisesTube  # noqa: E402
from openaerostruct.structures.weight import Weight  # noqa: E402
from openaerostruct.structures.wing_weight_loads import StructureWeightLoads  # noqa: E402


def _ssurf(cfg, fam, model="tube", **kw):
    m = msh(cfg, fam, nx=cfg.get("nx", 2))
    return builders.struct_surface("w", m, sym_of(cfg), model, struct_weight_relief=True, **kw)


def _cfg_struct(tier, models=("tube",)):
    sides = [("left", 2), ("left", 3), ("full", 3), ("full", 5), ("right", 3)] if tier == "quick" else [("left", 2), ("left", 3), ("left", 4), ("full", 3), ("full", 5), ("full", 7), ("right", 3)]
    return [dict(nx=2, ny=ny, side=side, pf="twdi", model=mo) for side, ny in sides for mo in models]


_cs = lambda tier: _cfg_struct(tier)  # noqa: E731


def _cs_mesh(tier, models=("tube",), nymax=99):
    """components that read the aerodynamic MESH (not just the node line): the chordwise node count is an axis too
    (nx = 3: an interior row exists; nx = 4: more than one)"""
    out = [c for c in _cfg_struct(tier, models) if c["ny"] <= nymax]
    for nx in (3, 4):
        for side, ny in [("left", 3), ("full", 5), ("right", 3)] if tier == "quick" else [("left", 2), ("left", 4), ("full", 3), ("full", 5), ("right", 3)]:
            if ny <= nymax:
                out += [dict(nx=nx, ny=ny, side=side, pf="twdi", model=mo) for mo in models]
    return out


def _nodes(s, kind):
    m = perturbed(msh(s["cfg"], s["fam"], nx=2), s, kind)
    return 0.65 * m[0] + 0.35 * m[-1]


def _sec(s, kind, ne):
    return {"A": gv((ne,), 1, 1e-2, 2e-2, s, kind), "Iy": gv((ne,), 2, 1e-4, 2e-4, s, kind), "Iz": gv((ne,), 3, 2e-4, 3e-4, s, kind), "J": gv((ne,), 4, 3e-4, 4e-4, s, kind)}


Case("ComputeNodes", _cs_mesh, lambda s: ComputeNodes(surface=_ssurf(s["cfg"], s["fam"])), lambda s, kind: {"mesh": perturbed(msh(s["cfg"], s["fam"]), s, kind)}, tags=("side",), kinds=("gen0",))
Case("Transform", _cs, lambda s: Transform(surface=_ssurf(s["cfg"], s["fam"])), lambda s, kind: {"nodes": _nodes(s, kind)}, tags=("side",), kinds=("gen0", "gen1"))
Case("Length", _cs, lambda s: Length(surface=_ssurf(s["cfg"], s["fam"])), lambda s, kind: {"nodes": _nodes(s, kind)}, tags=("side",), kinds=("gen0", "gen1"))
Case("LocalStiff", _cs, lambda s: LocalStiff(surface=_ssurf(s["cfg"], s["fam"])), lambda s, kind: dict(_sec(s, kind, s["cfg"]["ny"] - 1), element_lengths=gv((s["cfg"]["ny"] - 1,), 5, 1.0, 2.0, s, kind)), tags=("side",), kinds=("gen0", "gen1"))
Case("LocalStiffPermuted", _cs, lambda s: LocalStiffPermuted(surface=_ssurf(s["cfg"], s["fam"])), lambda s, kind: {}, tags=("side",), kinds=("gen0",))
Case("LocalStiffTransformed", _cs, lambda s: LocalStiffTransformed(surface=_ssurf(s["cfg"], s["fam"])), lambda s, kind: {}, tags=("side",), kinds=("gen0", "gen1"))


def _fem_pt(s, kind):
    import openmdao.api as om
    from openaerostruct.structures.assemble_k_group import AssembleKGroup

    ny = s["cfg"]["ny"]
    surf = _ssurf(s["cfg"], s["fam"])
    p = om.Problem(reports=False)
    p.model.add_subsystem("k", AssembleKGroup(surface=surf), promotes=["*"])
    p.setup()
    p.set_val("nodes", _nodes(s, kind))
    for k, v in _sec(s, kind, ny - 1).items():
        p.set_val(k, v)
    p.run_model()
    f = np.zeros(6 * ny + 6)
    f[: 6 * ny] = gv((6 * ny,), 5, -1e4, 1e4, s, kind)
    return {"local_stiff_transformed": p["local_stiff_transformed"].copy(), "forces": f}


Case("FEM", _cs, lambda s: FEM(surface=_ssurf(s["cfg"], s["fam"])), _fem_pt, tags=("side",), kinds=("gen0", "gen1"), opts=dict(rtol=1e-6))
Case("Weight", _cs, lambda s: Weight(surface=_ssurf(s["cfg"], s["fam"])), lambda s, kind: {"nodes": _nodes(s, kind), "A": _sec(s, kind, s["cfg"]["ny"] - 1)["A"]}, tags=("side",), kinds=("gen0", "gen1"))
Case("StructuralCG", _cs, lambda s: StructuralCG(surface=_ssurf(s["cfg"], s["fam"])), lambda s, kind: {"nodes": _nodes(s, kind), "structural_mass": 700.0, "element_mass": gv((s["cfg"]["ny"] - 1,), 2, 50.0, 150.0, s, kind)}, tags=("side",), kinds=("gen0", "gen1"))
Case(
    "StructureWeightLoads",
    _cs,
    lambda s: StructureWeightLoads(surface=_ssurf(s["cfg"], s["fam"])),
    lambda s, kind: {"nodes": _nodes(s, kind), "load_factor": 1.0 if kind == "special" else (2.5 if kind == "gen0" else -1.0), "element_mass": gv((s["cfg"]["ny"] - 1,), 2, 50.0, 150.0, s, kind)},
    tags=("side",),
)
Case(
    "VonMisesTube",
    _cs,
    lambda s: VonMisesTube(surface=_ssurf(s["cfg"], s["fam"])),
    lambda s, kind: {"nodes": _nodes(s, kind), "radius": gv((s["cfg"]["ny"] - 1,), 2, 0.1, 0.2, s, kind), "disp": gv((s["cfg"]["ny"], 6), 3, -1e-2, 1e-2, s, kind)},
    tags=("side",),
    kinds=("gen0", "gen1"),
)


def _cfg_ks(tier):
    return [dict(c, model=mo) for c in _cfg_struct(tier) for mo in ("tube", "wingbox")]


def _ks_pt(s, kind):
    nc = 2 if s["cfg"]["model"] == "tube" else 4
    v = gv((s["cfg"]["ny"] - 1, nc), 3, 1e8, 3e8, s, kind)
    return {"vonmises": v}


Case("FailureKS", _cfg_ks, lambda s: FailureKS(surface=_ssurf(s["cfg"], s["fam"], s["cfg"]["model"])), _ks_pt, tags=("model",), kinds=("gen0", "gen1"))
Case("FailureExact", _cfg_ks, lambda s: FailureExact(surface=_ssurf(s["cfg"], s["fam"], s["cfg"]["model"])), _ks_pt, tags=("model",), kinds=("gen0",))
Case(
    "SectionPropertiesTube",
    _cs,
    lambda s: SectionPropertiesTube(surface=_ssurf(s["cfg"], s["fam"])),
    lambda s, kind: {"radius": gv((s["cfg"]["ny"] - 1,), 1, 0.1, 0.2, s, kind), "thickness": gv((s["cfg"]["ny"] - 1,), 2, 0.01, 0.02, s, kind)},
    kinds=("gen0", "gen1"),
)
Case("Energy", _cs, lambda s: Energy(surface=_ssurf(s["cfg"], s["fam"])), lambda s, kind: {}, kinds=("gen0",))
Case("CreateRHS", _cs, lambda s: CreateRHS(surface=_ssurf(s["cfg"], s["fam"])), lambda s, kind: {"total_loads": gv((s["cfg"]["ny"], 6), 1, 10.0, 100.0, s, kind)}, kinds=("gen0",))
Case("Disp", _cs, lambda s: Disp(surface=_ssurf(s["cfg"], s["fam"])), lambda s, kind: {}, kinds=("gen0",))
Case("TotalLoads", _cs, lambda s: TotalLoads(surface=_ssurf(s["cfg"], s["fam"])), lambda s, kind: {}, kinds=("gen0",))
Case("NonIntersectingThickness", _cs, lambda s: NonIntersectingThickness(surface=_ssurf(s["cfg"], s["fam"])), lambda s, kind: {}, kinds=("gen0",))

from openaerostruct.geometry.monotonic_constraint import MonotonicConstraint  # noqa: E402
from openaerostruct.geometry.radius_comp import RadiusComp  # noqa: E402

Case("RadiusComp", _cs_mesh, lambda s: RadiusComp(surface=_ssurf(s["cfg"], s["fam"])), lambda s, kind: {"mesh": perturbed(msh(s["cfg"], s["fam"]), s, kind), "t_over_c": gv((s["cfg"]["ny"] - 1,), 2, 0.08, 0.16, s, kind)}, tags=("side",), kinds=("gen0", "gen1"))
Case("MonotonicConstraint", _cs, lambda s: MonotonicConstraint(surface=_ssurf(s["cfg"], s["fam"]), var_name="x"), lambda s, kind: {}, tags=("side",), kinds=("gen0",))

# ============================================================ transfer
from openaerostruct.transfer.compute_transformation_matrix import ComputeTransformationMatrix  # noqa: E402
from openaerostruct.transfer.displacement_transfer import DisplacementTransfer  # noqa: E402
from openaerostruct.transfer.load_transfer import LoadTransfer  # noqa: E402


def _cfg_tr(tier):
    out = []
    for sh in shape_axes(tier):
        for mo in ("tube", "wingbox"):
            out.append(dict(sh, pf="twdi", model=mo))
    return out


def _tsurf(cfg, fam):
    m = msh(cfg, fam)
    return builders.struct_surface("w", m, sym_of(cfg), cfg["model"])


Case(
    "LoadTransfer",
    _cfg_tr,
    lambda s: LoadTransfer(surface=_tsurf(s["cfg"], s["fam"])),
    lambda s, kind: {"def_mesh": _mesh_in(s, kind), "sec_forces": gv((s["cfg"]["nx"] - 1, s["cfg"]["ny"] - 1, 3), 2, -300.0, 900.0, s, kind)},
    tags=("side", "model"),
    kinds=("gen0", "gen1"),
)
Case("DisplacementTransfer", _cfg_tr, lambda s: DisplacementTransfer(surface=_tsurf(s["cfg"], s["fam"])), lambda s, kind: {"mesh": _mesh_in(s, kind)}, tags=("side",), kinds=("gen0", "gen1"))
Case(
    "ComputeTransformationMatrix",
    lambda tier: [c for c in _cfg_tr(tier) if c["model"] == "tube" and c["nx"] == 2],
    lambda s: ComputeTransformationMatrix(surface=_tsurf(s["cfg"], s["fam"])),
    lambda s, kind: {"disp": np.zeros((s["cfg"]["ny"], 6)) if kind == "special" else gv((s["cfg"]["ny"], 6), 1, -0.1, 0.1, s, kind)},
    tags=("side",),
    opts=dict(typ={"disp": 0.1}),
)

# ============================================================ functionals / common
from openaerostruct.common.atmos_comp import AtmosComp  # noqa: E402
from openaerostruct.common.reynolds_comp import ReynoldsComp  # noqa: E402
from openaerostruct.functionals.breguet_range import BreguetRange  # noqa: E402
from openaerostruct.functionals.center_of_gravity import CenterOfGravity  # noqa: E402
from openaerostruct.functionals.equilibrium import Equilibrium  # noqa: E402
from openaerostruct.functionals.moment_coefficient import MomentCoefficient  # noqa: E402
from openaerostruct.functionals.sum_areas import SumAreas  # noqa: E402
from openaerostruct.functionals.total_lift_drag import TotalLiftDrag  # noqa: E402


def _fsurfs(cfg, fam):
    side = cfg.get("side", "full")
    out = []
    for i in range(cfg["ns"]):
        nx, ny = [(2, 3), (3, 4 if side != "full" else 5), (2, 2 if side != "full" else 3)][i]
        m = G.make_mesh("twdi", nx, ny, side, fam, asym=(side == "full"), offset=[4.0 * i, 0, 0.3 * i])
        out.append(builders.aero_surface("s%d" % i, m, side != "full"))
    return out


def _cfg_f(tier, sides=("full",)):
    return [dict(ns=n, side=sd) for n in (1, 2, 3) for sd in sides]


def _mc_pt(s, kind):
    d = {}
    for sf in _fsurfs(s["cfg"], s["fam"]):
        m = perturbed(sf["mesh"], s, kind)
        n = sf["name"]
        bp = 0.75 * m[:-1] + 0.25 * m[1:]
        d[n + "_b_pts"] = bp
        d[n + "_widths"] = np.abs(np.diff(bp[0, :, 1]))
        d[n + "_chords"] = m[-1, :, 0] - m[0, :, 0]
        d[n + "_S_ref"] = 10.0 + 3.0 * len(d)
    d["cg"] = np.zeros(3) if kind == "special" else gv((3,), 9, -1.0, 2.0, s, kind)
    d["v"] = 60.0 if kind != "gen1" else 210.0
    d["rho"] = 1.1
    d["S_ref_total"] = 40.0
    d["*"] = lambda n, sh, k: gv(sh, k, -300.0, 900.0, s, kind)
    return d


Case("MomentCoefficient", lambda tier: _cfg_f(tier, ("full", "left")), lambda s: MomentCoefficient(surfaces=_fsurfs(s["cfg"], s["fam"])), _mc_pt, tags=("side", "ns"))
Case("TotalLiftDrag", _cfg_f, lambda s: TotalLiftDrag(surfaces=_fsurfs(s["cfg"], s["fam"])), lambda s, kind: {}, tags=("ns",), kinds=("gen0", "gen1"))
Case("SumAreas", _cfg_f, lambda s: SumAreas(surfaces=_fsurfs(s["cfg"], s["fam"])), lambda s, kind: {}, tags=("ns",), kinds=("gen0",))
Case(
    "BreguetRange",
    _cfg_f,
    lambda s: BreguetRange(surfaces=_fsurfs(s["cfg"], s["fam"])),
    lambda s, kind: {"R": 3e6, "CT": 1e-4, "speed_of_sound": 300.0, "Mach_number": 0.8, "CL": 0.5, "CD": 0.03, "W0": 1e4, "*": lambda n, sh, k: gv(sh, k, 300.0, 900.0, s, kind)},
    tags=("ns",),
    kinds=("gen0", "gen1"),
)
Case("Equilibrium", _cfg_f, lambda s: Equilibrium(surfaces=_fsurfs(s["cfg"], s["fam"])), lambda s, kind: {"load_factor": 1.0 if kind == "special" else 2.5, "*": lambda n, sh, k: gv(sh, k, 300.0, 900.0, s, kind)}, tags=("ns",))
Case(
    "CenterOfGravity",
    _cfg_f,
    lambda s: CenterOfGravity(surfaces=_fsurfs(s["cfg"], s["fam"])),
    lambda s, kind: {"total_weight": 1e5, "fuelburn": 100.0, "W0": 5e3, "load_factor": 1.0 if kind == "special" else 2.5, "*": lambda n, sh, k: gv(sh, k, 0.5, 1.5, s, kind)},
    tags=("ns",),
)
Case("AtmosComp", _one, lambda s: AtmosComp(), lambda s, kind: {"altitude": 33123.0 if kind != "gen1" else 18777.0, "Mach_number": 0.8}, kinds=("gen0", "gen1"), opts=dict(hrel=1e-4))
Case("ReynoldsComp", _one, lambda s: ReynoldsComp(), lambda s, kind: {}, kinds=("gen0", "gen1"))

# ============================================================ multi-section
from openaerostruct.geometry.geometry_multi_join import GeomMultiJoin  # noqa: E402
from openaerostruct.geometry.geometry_unification import GeomMultiUnification  # noqa: E402


def _secs(cfg, fam):
    n = cfg["nsec"]
    out = []
    for i in range(n):
        nx, ny = 2, [3, 4, 2, 3, 2][i]
        m = G.make_mesh("swept", nx, 2 * ny - 1, "full", fam, asym=True, span=4.0)[:, :ny] + np.array([0.0, 8.0 * i, 0.0])
        out.append({"name": "s%d" % i, "mesh": m})
    return out


def _cfg_ms(tier):
    return [dict(nsec=n, shift=sh) for n in (1, 2, 3, 4, 5) for sh in (True, False)]  # middle sections beyond the second exist from 4 sections on


Case("GeomMultiUnification", _cfg_ms, lambda s: GeomMultiUnification(sections=_secs(s["cfg"], s["fam"]), surface_name="w", shift_uni_mesh=s["cfg"]["shift"]), lambda s, kind: {}, tags=("nsec", "shift"), kinds=("gen0",))
Case(
    "GeomMultiJoin",
    # per-edge axis masks: uniform, and DIFFERENT masks of equal count on consecutive edges (unequal counts are rejected upstream)
    lambda tier: [dict(nsec=2, masks=mk) for mk in ("101", "111", "010")] + [dict(nsec=3, masks=mk) for mk in ("101,101", "100,001", "110,011", "111,111", "010,100", "100,100")],
    lambda s: GeomMultiJoin(sections=_secs(s["cfg"], s["fam"]), dim_constr=[np.array([int(c) for c in mk]) for mk in s["cfg"]["masks"].split(",")]),
    lambda s, kind: {},
    tags=("nsec", "masks"),
    kinds=("gen0",),
)

# ============================================================ cs/fd-approximated components (anchored under C02; included for completeness)
from openaerostruct.structures.compute_point_mass_loads import ComputePointMassLoads  # noqa: E402
from openaerostruct.structures.compute_thrust_loads import ComputeThrustLoads  # noqa: E402
from openaerostruct.structures.fuel_loads import FuelLoads  # noqa: E402
from openaerostruct.structures.fuel_vol import WingboxFuelVol as FuelVol  # noqa: E402
from openaerostruct.structures.section_properties_wingbox import SectionPropertiesWingbox  # noqa: E402
from openaerostruct.structures.vonmises_wingbox import VonMisesWingbox  # noqa: E402
from openaerostruct.structures.wingbox_fuel_vol_delta import WingboxFuelVolDelta  # noqa: E402
from openaerostruct.structures.wingbox_geometry import WingboxGeometry  # noqa: E402

_cw = lambda tier: [c for c in _cfg_struct(tier) if c["ny"] <= 3]  # noqa: E731


def _wsurf(cfg, fam, **kw):
    return _ssurf(cfg, fam, "wingbox", **kw)


def _vmw_pt(s, kind):
    ne = s["cfg"]["ny"] - 1
    d = {"nodes": _nodes(s, kind), "disp": gv((ne + 1, 6), 3, -1e-2, 1e-2, s, kind)}
    for k, (nm, lo, hi) in enumerate([("Qz", 1e-3, 3e-3), ("J", 2e-4, 5e-4), ("A_enc", 0.05, 0.1), ("spar_thickness", 4e-3, 8e-3), ("htop", 0.08, 0.12), ("hbottom", 0.07, 0.11), ("hfront", 0.2, 0.3), ("hrear", 0.15, 0.25)]):
        d[nm] = gv((ne,), 10 + k, lo, hi, s, kind)
    return d


Case("VonMisesWingbox", _cw, lambda s: VonMisesWingbox(surface=_wsurf(s["cfg"], s["fam"])), _vmw_pt, tags=("side",), kinds=("gen0",))
Case(
    "WingboxGeometry",
    lambda tier: _cs_mesh(tier, nymax=3),
    lambda s: WingboxGeometry(surface=_wsurf(s["cfg"], s["fam"])),
    lambda s, kind: {"mesh": perturbed(msh(s["cfg"], s["fam"]), s, kind)},
    tags=("side",),
    kinds=("gen0",),
)
Case(
    "SectionPropertiesWingbox",
    _cw,
    lambda s: SectionPropertiesWingbox(surface=_wsurf(s["cfg"], s["fam"])),
    lambda s, kind: {"streamwise_chords": gv((s["cfg"]["ny"] - 1,), 1, 1.0, 2.0, s, kind), "fem_chords": gv((s["cfg"]["ny"] - 1,), 2, 1.0, 2.0, s, kind), "fem_twists": gv((s["cfg"]["ny"] - 1,), 3, 1.0, 4.0, s, kind), "spar_thickness": gv((s["cfg"]["ny"] - 1,), 4, 4e-3, 8e-3, s, kind), "skin_thickness": gv((s["cfg"]["ny"] - 1,), 5, 8e-3, 1.5e-2, s, kind), "t_over_c": gv((s["cfg"]["ny"] - 1,), 6, 0.1, 0.14, s, kind)},
    tags=("side",),
    kinds=("gen0",),
)
Case(
    "FuelLoads",
    _cw,
    lambda s: FuelLoads(surface=_wsurf(s["cfg"], s["fam"], distributed_fuel_weight=True)),
    lambda s, kind: {"nodes": _nodes(s, kind), "load_factor": 2.5, "fuel_mass": 1e4, "fuel_vols": gv((s["cfg"]["ny"] - 1,), 2, 0.5, 1.5, s, kind)},
    tags=("side",),
    kinds=("gen0",),
)
Case("FuelVol", _cw, lambda s: FuelVol(surface=_wsurf(s["cfg"], s["fam"])), lambda s, kind: {"nodes": _nodes(s, kind), "A_int": gv((s["cfg"]["ny"] - 1,), 2, 0.05, 0.15, s, kind)}, tags=("side",), kinds=("gen0",))
Case("WingboxFuelVolDelta", _cw, lambda s: WingboxFuelVolDelta(surface=_wsurf(s["cfg"], s["fam"])), lambda s, kind: {"fuelburn": 3e3, "fuel_vols": gv((s["cfg"]["ny"] - 1,), 2, 0.5, 1.5, s, kind)}, tags=("side",), kinds=("gen0",))


def _pm_pt(s, kind):
    nd = _nodes(s, kind)
    return {"nodes": nd, "point_mass_locations": np.array([[1.1, 0.5 * (nd[0, 1] + nd[1, 1]) + 0.013, -0.35]]), "point_masses": np.array([600.0]), "engine_thrusts": np.array([5e3]), "load_factor": 2.5}


Case("ComputePointMassLoads", _cw, lambda s: ComputePointMassLoads(surface=_ssurf(s["cfg"], s["fam"], n_point_masses=1)), _pm_pt, tags=("side",), kinds=("gen0",), opts=dict(skip_of=("nodal_weightings",)))
Case("ComputeThrustLoads", _cw, lambda s: ComputeThrustLoads(surface=_ssurf(s["cfg"], s["fam"], n_point_masses=1)), _pm_pt, tags=("side",), kinds=("gen0",), opts=dict(skip_of=("nodal_weightings",)))
