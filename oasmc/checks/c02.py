"""C02 - coupled total derivatives are correct and identical in forward and reverse mode."""
import itertools

import numpy as np
import openmdao.api as om

from oasmc import builders, gen
from oasmc.engine import digest_arrays
from oasmc.ref import ref_deriv

ID = "C02"
RULE = (
    "complete product model topology x option set x design point x coupled linear solver; each state builds the real model in fwd and in rev "
    "mode, converges it tightly and compares Problem.compute_totals of every function of interest w.r.t. every design variable and flight "
    "condition (a) with Richardson differences of the converged analysis, (b) fwd against rev entry by entry, (c) against the DirectSolver "
    "result (solvers: a DirectSolver / LinearBlockGS / Krylov attached by the user, or the library's own solver objects left untouched, "
    "incl. the documented multipoint pattern with driver-registered responses at transport-aircraft scale); non-trivial = distinct states with a non-zero reference Jacobian"
)
ASSUMPTIONS = [
    "finite alphabets for topologies, option sets and two design points; nx=2(3), half ny 3-4, <=2 surfaces, <=2 flight points",
    "coupled solvers tightened to rtol 1e-13 (user-level setting); ScipyKrylov+LinearRunOnce in fwd mode excluded (fails on OpenMDAO's own Sellar problem in this image, see selftest)",
    "wingbox models use non-flat twist (documented arccos kink at exactly zero twist)",
    "Richardson oracle with error estimate; OpenMDAO/NumPy/SciPy trusted",
]
BOUND = {"quick": "11 topologies x 1-3 option sets x 1 design point; left and right half meshes, nx 2-3", "thorough": "adds option sets, off-design point, LinearBlockGS/Krylov on every aerostructural state"}
TOL_FD = 2e-6
TOL_MODE = 1e-8
TOL_SOLVER = 1e-6


def states(tier, seed):
    fam = seed % 3
    st = []
    pts = ["base"] if tier == "quick" else ["base", "off"]
    # --- aero
    aero_opts = [
        dict(sym=True, comp=False, ground=False, visc=True, wave=False),
        dict(sym=False, comp=False, ground=False, visc=True, wave=True),
        dict(sym=True, comp=True, ground=False, visc=True, wave=True),
        dict(sym=True, comp=False, ground=True, visc=False, wave=False),
        dict(sym=True, comp=False, ground=False, visc=False, wave=True),  # wave drag without viscous drag
    ]
    if tier == "thorough":
        aero_opts += [dict(sym=False, comp=True, ground=False, visc=False, wave=False), dict(sym=True, comp=False, ground=True, visc=True, wave=True), dict(sym=False, comp=False, ground=False, visc=False, wave=False, rot=True)]
    for o, pt, two in itertools.product(aero_opts, pts, [False, True]):
        if two and tier == "quick" and (o["comp"] or o["ground"]):
            continue
        st.append(dict(topo="aero", two=two, pt=pt, fam=fam, **o))
    if tier == "quick":
        st.append(dict(topo="aero", two=True, pt="base", fam=fam, sym=False, comp=False, ground=False, visc=True, wave=False, rot=True))
        st.append(dict(topo="aero", two=True, pt="base", fam=fam, sym=False, comp=True, ground=False, visc=False, wave=False, rot=True))
    # --- struct alone
    for model, sym, relief, pm, pt in itertools.product(["tube", "wingbox"], [True, False], [False, True], [False, True], pts):
        if tier == "quick" and (relief != pm):
            continue
        st.append(dict(topo="struct", model=model, sym=sym, relief=relief, pmass=pm, pt=pt, fam=fam))
    # mesh-shape axis: right-half symmetric meshes (root node first) and nx = 3 (an interior chordwise row of mesh nodes)
    for model, relief in itertools.product(["tube", "wingbox"], [False, True]):
        if tier == "quick" and (model == "tube") != relief:
            continue
        st.append(dict(topo="struct", model=model, sym=True, relief=relief, pmass=relief, pt="base", fam=fam, side="right", nx=3))
    # --- aerostruct
    as_opts = [
        dict(model="tube", sym=True, relief=False, fuel=False, pmass=False, comp=False, visc=True, wave=False, two=False),
        dict(model="wingbox", sym=True, relief=True, fuel=True, pmass=True, comp=True, visc=True, wave=True, two=False),
        dict(model="tube", sym=False, relief=True, fuel=False, pmass=False, comp=False, visc=True, wave=False, two=False),
        dict(model="tube", sym=True, relief=False, fuel=False, pmass=False, comp=False, visc=True, wave=False, two=True),
    ]
    if tier == "thorough":
        as_opts += [
            dict(model="wingbox", sym=False, relief=True, fuel=False, pmass=False, comp=False, visc=True, wave=False, two=False),
            dict(model="tube", sym=True, relief=True, fuel=False, pmass=True, comp=True, visc=False, wave=False, two=False),
            dict(model="wingbox", sym=True, relief=False, fuel=True, pmass=False, comp=False, visc=True, wave=True, two=False),
            dict(model="tube", sym=True, relief=True, fuel=False, pmass=False, comp=False, visc=True, wave=False, two=False, ground=True),
        ]
    lins = ["direct", "lbgs", "krylov"]
    for o, pt in itertools.product(as_opts, pts):
        for lin in lins:
            if tier == "quick" and lin != "direct" and (o["two"] or o["model"] == "wingbox" and not o["sym"]):
                continue
            st.append(dict(topo="as", lin=lin, pt=pt, fam=fam, npoints=1, **o))
    for lin in lins:
        st.append(dict(topo="as", lin=lin, pt="base", fam=fam, npoints=1, side="right", nx=3, model="tube", sym=True, relief=True, fuel=False, pmass=True, comp=False, visc=True, wave=False, two=False))
        if tier == "thorough":
            st.append(dict(topo="as", lin=lin, pt="base", fam=fam, npoints=1, side="right", nx=3, model="wingbox", sym=True, relief=True, fuel=True, pmass=False, comp=False, visc=True, wave=False, two=False))
    # laminar-fraction end values (each its own branch of the skin-friction model and of its linearisation)
    for klam in (1.0, 0.0):
        st.append(dict(topo="as", lin="direct", pt="base", fam=fam, npoints=1, klam=klam, model="tube", sym=True, relief=False, fuel=False, pmass=False, comp=False, visc=True, wave=False, two=False))
    # the library's own solver configuration (nothing re-attached by the user), single point and the documented multipoint
    # pattern: points created with internally_connect_fuelburn=False, the cruise fuel burn connected to every point, all responses
    # and design variables registered with the driver and requested in one compute_totals call
    st.append(dict(topo="as", lin="default", pt="base", fam=fam, npoints=1, model="tube", sym=True, relief=True, fuel=False, pmass=False, comp=False, visc=True, wave=False, two=False))
    st.append(dict(topo="as", lin="default", pt="base", fam=fam, npoints=1, doc=True, model="wingbox", sym=True, relief=True, fuel=True, pmass=False, comp=False, visc=True, wave=True, two=False))
    for model in ["tube"] if tier == "quick" else ["tube", "wingbox"]:
        st.append(dict(topo="as", lin="default", pt="base", fam=fam, npoints=2, doc=True, crm=True, model=model, sym=True, relief=False, fuel=False, pmass=False, comp=False, visc=True, wave=False, two=False))
        st.append(dict(topo="as", lin="default", pt="base", fam=fam, npoints=2, doc=True, model=model, sym=True, relief=True, fuel=False, pmass=False, comp=False, visc=True, wave=False, two=False))
        st.append(dict(topo="as", lin="direct", pt="base", fam=fam, npoints=2, doc=True, model=model, sym=True, relief=True, fuel=False, pmass=False, comp=False, visc=True, wave=False, two=False))
    st.append(dict(topo="as", lin="direct", pt="base", fam=fam, npoints=2, model="tube", sym=True, relief=True, fuel=False, pmass=False, comp=False, visc=True, wave=False, two=False))
    if tier == "thorough":
        st.append(dict(topo="as", lin="direct", pt="off", fam=fam, npoints=2, model="wingbox", sym=True, relief=True, fuel=False, pmass=False, comp=False, visc=True, wave=False, two=False))
    # --- MPhys chain
    for sym, comp, n in itertools.product([False, True], [False, True], [1, 2]):
        st.append(dict(topo="mphys", sym=sym, comp=comp, n=n, pt="base", fam=fam))
    return st, 0


# ---------------------------------------------------------------- model construction
def aero_model(s, mode):
    fam = s["fam"]
    sym = s["sym"]
    side = "left" if sym else "full"
    ny = 3 if sym else 5
    off = s["pt"] == "off"
    kw = dict(with_viscous=s["visc"], with_wave=s["wave"], CD0=0.01, CL0=0.05, t_over_c_cp=np.array([0.12, 0.14]))
    if s["ground"]:
        kw["groundplane"] = True
    m = gen.make_mesh("twdi", 2, ny, side, fam, asym=not sym)
    w = builders.aero_surface("wing", m, sym, twist_cp=np.array([1.0, 2.5, -0.5]) + (1.5 if off else 0.0), chord_cp=np.array([1.0, 1.1]), sweep=3.0 if not off else 12.0, taper=0.9, dihedral=2.0, xshear_cp=np.array([0.0, 0.1]), zshear_cp=np.array([0.0, 0.05]), **kw)
    if sym:
        w["span"] = 9.0
    surfs = [w]
    if s["two"]:
        m2 = gen.make_mesh("swept", 3, 3 if sym else 3, side, fam, asym=not sym, span=3.0, chord=0.8, offset=[5.0, 0.0, 0.7])
        surfs.append(builders.aero_surface("tail", m2, sym, twist_cp=np.array([-1.0, 0.5]), **kw))
    fl = dict(v=200.0, alpha=3.0 if not off else -2.0, beta=0.0 if sym else 4.0, rho=0.5, re=2.0e6, Mach_number=0.84 if s["wave"] else 0.5, cg=[0.6, 0.0 if sym else 0.1, 0.1])
    if s["ground"]:
        fl["height_agl"] = 6.0
    rot = s.get("rot", False)
    if rot:
        # rotation-induced onset velocities of the order of a fifth of the free stream (they differ from panel to panel and from
        # surface to surface)
        fl["omega"] = [0.7, 0.26, -0.35]
        fl["v"] = 60.0
    p = builders.build_aero(surfs, fl, compressible=s["comp"], with_geom=True, mode=mode, rotational=rot)
    of = ["ap.CL", "ap.CD", "ap.CM"] + ["ap.%s_perf.%s" % (x["name"], q) for x in surfs for q in ("CL", "CDi")]
    wrt = ["alpha", "v", "rho", "re", "Mach_number", "cg", "wing.twist_cp", "wing.chord_cp", "wing.sweep", "wing.taper", "wing.dihedral", "wing.xshear_cp", "wing.zshear_cp", "wing.t_over_c_cp"]
    if not sym:
        wrt.append("beta")
    if sym:
        wrt.append("wing.span")
    if s["ground"]:
        wrt.append("height_agl")
    if rot:
        wrt.append("omega")
    if s["two"]:
        wrt.append("tail.twist_cp")
    return p, of, wrt, None


def struct_model(s, mode):
    fam = s["fam"]
    sym = s["sym"]
    ny = 4 if sym else 5
    off = s["pt"] == "off"
    side = s.get("side", "left")
    m = gen.make_mesh("twdi", s.get("nx", 2), ny, side if sym else "full", fam, asym=not sym, span=10.0, chord=1.6)
    kw = dict(struct_weight_relief=s["relief"], twist_cp=np.array([2.0, 3.0, 1.0]), t_over_c_cp=np.array([0.12, 0.14]))
    pm = None
    if s["pmass"]:
        kw["n_point_masses"] = 1
        pm = dict(point_masses=[600.0], engine_thrusts=[5.0e3], point_mass_locations=[[1.1, 2.3 if side == "right" else -2.3, -0.35]])
    if s["model"] == "tube":
        kw["thickness_cp"] = np.array([0.015, 0.02, 0.03]) * (1.3 if off else 1.0)
    else:
        kw["spar_thickness_cp"] = np.array([0.004, 0.006, 0.008]) * (1.3 if off else 1.0)
        kw["skin_thickness_cp"] = np.array([0.008, 0.012, 0.016])
    surf = builders.struct_surface("wing", m, sym, s["model"], **kw)
    loads = np.concatenate([gen.gen((ny, 3), 3, -2e3, 4e3, fam), gen.gen((ny, 3), 4, -5e2, 5e2, fam)], axis=1)
    p = builders.build_struct(surf, loads, mode=mode, load_factor=1.5 if not off else 2.5, pm=pm)
    of = ["failure", "structural_mass", "vonmises", "disp"]
    wrt = ["loads", "geometry.twist_cp", "geometry.t_over_c_cp"]
    wrt += ["thickness_cp"] if s["model"] == "tube" else ["spar_thickness_cp", "skin_thickness_cp"]
    if s["relief"] or s["pmass"]:
        wrt.append("load_factor")
    if s["pmass"]:
        wrt += ["point_mass_locations", "point_masses", "engine_thrusts"]
    return p, of, wrt, None


def as_model(s, mode):
    fam = s["fam"]
    sym = s["sym"]
    ny = 3 if sym else 5
    off = s["pt"] == "off"
    kw = dict(struct_weight_relief=s["relief"], distributed_fuel_weight=s["fuel"], with_viscous=s["visc"], with_wave=s["wave"], twist_cp=np.array([2.0, 3.0, 1.0]) + (1.0 if off else 0.0), t_over_c_cp=np.array([0.12, 0.14]), sweep=2.0, taper=0.95, k_lam=s.get("klam", 0.05))
    if s.get("ground"):
        kw["groundplane"] = True
    pm = None
    side = s.get("side", "left")
    if s["pmass"]:
        kw["n_point_masses"] = 1
        pm = dict(point_masses=[600.0], engine_thrusts=[5.0e3], point_mass_locations=[[1.1, 2.3 if side == "right" else -2.3, -0.35]])
    if s["model"] == "tube":
        kw["thickness_cp"] = np.array([0.015, 0.02, 0.03]) * (1.3 if off else 1.0)
    else:
        kw["spar_thickness_cp"] = np.array([0.004, 0.006, 0.008]) * (1.3 if off else 1.0)
        kw["skin_thickness_cp"] = np.array([0.008, 0.012, 0.016])
    m = gen.make_mesh("twdi", s.get("nx", 2), ny, side if sym else "full", fam, asym=not sym, span=10.0, chord=1.6)
    if s.get("crm"):
        # transport-aircraft scale (the documentation's multipoint example): weights of 1e5 kg make the adjoint right-hand sides
        # that enter the coupled group small in absolute terms
        m = gen.make_mesh("crm", 2, 4, "left", fam)
        kw.update(twist_cp=np.array([4.0, 5.0, 3.0]) + 0.1 * fam, sweep=0.0, taper=1.0)
        if s["model"] == "tube":
            kw["thickness_cp"] = np.array([0.1, 0.2, 0.3])
        else:
            kw.update(spar_thickness_cp=np.array([0.004, 0.005, 0.008]), skin_thickness_cp=np.array([0.005, 0.01, 0.015]))
    surfs = [builders.struct_surface("wing", m, sym, s["model"], **kw)]
    if s["two"]:
        m2 = gen.make_mesh("swept", 2, 3, "left" if sym else "full", fam, asym=not sym, span=4.0, chord=0.9, offset=[6.0, 0.0, 0.8])
        surfs.append(builders.struct_surface("tail", m2, sym, "tube", struct_weight_relief=False, with_viscous=s["visc"], twist_cp=np.array([-1.0, 0.5]), thickness_cp=np.array([0.01, 0.012])))
    fl = dict(Mach_number=0.84 if s["wave"] else 0.5, W0=2.0e3, v=100.0, rho=0.9, alpha=4.0 if not off else 1.0, speed_of_sound=200.0, R=2.0e6, load_factor=1.3, beta=0.0 if sym else 3.0)
    if s.get("ground"):
        fl["height_agl"] = 7.0
    npts = s["npoints"]
    pf = None
    if npts > 1:
        pf = [dict(), dict(alpha=2.0, load_factor=2.5, v=130.0)]
    if s.get("crm"):
        fl.update(Mach_number=0.84, W0=0.4 * 3e5, v=248.136, rho=0.38, alpha=3.0, speed_of_sound=295.4, R=11.165e6, CT=9.80665 * 17.0e-6, re=1.0e6, load_factor=1.0)
        if npts > 1:
            pf = [dict(), dict(alpha=6.0, load_factor=2.5)]
    A = "AS_point_0."
    of = [A + "CL", A + "CD", A + "CM", A + "fuelburn", A + "L_equals_W", A + "wing_perf.failure", "wing.structural_mass"]
    if s["model"] == "wingbox":
        of.append("fuel_vol_delta.fuel_vol_delta")
    sfx = "" if npts == 1 else "_0"
    wrt = [n + sfx for n in ("alpha", "v", "rho", "re", "Mach_number", "W0", "load_factor", "R", "CT", "speed_of_sound", "empty_cg")] + ["wing.twist_cp", "wing.geometry.t_over_c_cp", "wing.sweep", "wing.taper"]
    if not sym:
        wrt.append("beta" + sfx)
    if s.get("ground"):
        wrt.append("height_agl" + sfx)
    wrt += ["wing.thickness_cp"] if s["model"] == "tube" else ["wing.spar_thickness_cp", "wing.skin_thickness_cp"]
    if s["fuel"]:
        wrt.append("fuel_mass")
    if s["pmass"]:
        wrt += ["point_mass_locations", "point_masses", "engine_thrusts"]
    if s["two"]:
        of += [A + "tail_perf.failure"]
        wrt += ["tail.twist_cp", "tail.thickness_cp"]
    if npts > 1:
        B = "AS_point_1."
        of += [B + "CL", B + "fuelburn", B + "wing_perf.failure", B + "L_equals_W"]
        wrt += ["alpha_1", "load_factor_1", "v_1"]
    doc = bool(s.get("doc"))
    p = builders.build_aerostruct(surfs, fl, npoints=npts, compressible=s["comp"], mode=mode, pm=pm, fuel_vol_delta=(s["model"] == "wingbox"), point_flows=pf, cross_fuelburn=doc, register=([A + "fuelburn"] + [o for o in of if o != A + "fuelburn"], wrt) if doc else None)
    # reverse-mode iterative solves converge to 1e-12; forward-mode LinearBlockGS stalls at round-off above 1e-10
    # lin "default": the linear solver the library attaches itself is left in place (and with it its configuration)
    builders.tighten(p, npoints=npts, nl="default" if s["lin"] == "default" else "aitken", lin=s["lin"], lin_tol=1e-12 if mode == "rev" else 1e-10)
    return p, of, wrt, None


def mphys_model(s, mode):
    from mphys.core import MPhysVariables as V

    from openaerostruct.mphys.aero_funcs_group import AeroFuncsGroup
    from openaerostruct.mphys.aero_solver_group import AeroSolverGroup
    from openaerostruct.mphys.demux_surface_mesh import DemuxSurfaceMesh
    from openaerostruct.mphys.mux_surface_forces import MuxSurfaceForces
    from oasmc.checks.c19 import mk_surfs

    surfs = mk_surfs(s["sym"], s["n"], s["fam"], visc=True)
    FC = V.Aerodynamics.FlowConditions
    p = om.Problem(reports=False)
    ivc = om.IndepVarComp()
    x = np.concatenate([sf["mesh"].ravel() for sf in surfs])
    ivc.add_output(V.Aerodynamics.Surface.COORDINATES, val=x, units="m")
    ivc.add_output(FC.ANGLE_OF_ATTACK, val=4.0, units="deg")
    ivc.add_output(FC.YAW_ANGLE, val=0.0 if s["sym"] else 3.0, units="deg")
    ivc.add_output(FC.MACH_NUMBER, val=0.6)
    ivc.add_output(FC.REYNOLDS_NUMBER, val=1.0e6, units="1/m")
    ivc.add_output("v", val=60.0, units="m/s")
    ivc.add_output("rho", val=1.1, units="kg/m**3")
    ivc.add_output("cg", val=[0.4, 0.0 if s["sym"] else 0.15, 0.1], units="m")
    p.model.add_subsystem("ivc", ivc, promotes=["*"])
    p.model.add_subsystem("demux", DemuxSurfaceMesh(surfaces=surfs), promotes=["*"])
    p.model.add_subsystem("solver", AeroSolverGroup(surfaces=surfs, compressible=s["comp"]), promotes=["*"])
    p.model.add_subsystem("mux", MuxSurfaceForces(surfaces=surfs), promotes=["*"])
    p.model.add_subsystem("funcs", AeroFuncsGroup(surfaces=surfs, write_solution=False), promotes=["*"])
    p.setup(mode=mode)
    p.set_solver_print(-1)
    for sf in surfs:
        p.set_val("%s.t_over_c" % sf["name"], 0.12)
    of = [V.Aerodynamics.Surface.LOADS, "CL", "CD", "CM"]
    wrt = [V.Aerodynamics.Surface.COORDINATES, FC.ANGLE_OF_ATTACK, "v", "rho", "cg"]
    if not s["sym"]:
        wrt.append(FC.YAW_ANGLE)
    if s["comp"]:
        wrt.append(FC.MACH_NUMBER)
    return p, of, wrt, None


MODELS = dict(aero=aero_model, struct=struct_model, **{"as": as_model}, mphys=mphys_model)


def totals(p, of, wrt):
    T = p.compute_totals(of=of, wrt=wrt)
    sizes_o = [p.get_val(o).size for o in of]
    return {w: np.vstack([np.asarray(T[o, w]).reshape(n, -1) for o, n in zip(of, sizes_o)]) for w in wrt}


def run_state(s):
    build = MODELS[s["topo"]]
    lin = s.get("lin", "direct")
    modes = ["fwd", "rev"]
    if lin == "krylov":
        modes = ["rev"]  # framework exclusion, see ASSUMPTIONS
    P, Tm = {}, {}
    evals = 0
    for mode in modes:
        try:
            p, of, wrt, _ = build(s, mode)
            p.run_model()
            Tm[mode] = totals(p, of, wrt)
        except om.AnalysisError as e:
            msg = str(e)
            if "'LN:" in msg and s["topo"] == "as":
                # the iterative LINEAR solver did not converge.  The block Gauss-Seidel iteration matrix of the linearised
                # coupled system (and of its transpose) has the spectrum of the Jacobian of the nonlinear block Gauss-Seidel
                # map at the solution; restarted GMRES converges for any non-singular system of this size.  So if plain
                # nonlinear block Gauss-Seidel (no Aitken) converges for this configuration, linear non-convergence means the
                # component-level linear operators are inconsistent with the model: a violation, not an inadmissible cell.
                try:
                    q, _, _, _ = build(dict(s, lin="direct"), "rev")
                    builders.tighten(q, npoints=s.get("npoints", 1), nl="nlbgs", lin="direct")
                    q.run_model()
                    nl_ok = True
                except om.AnalysisError:
                    nl_ok = False
                if nl_ok:
                    tags = {k: s[k] for k in ("model", "sym", "comp", "two", "ground", "npoints", "doc", "crm") if k in s}
                    v = dict(sig=dict(oracle="linear_solver_converges", lin=lin, mode=mode, topo=s["topo"], **tags), msg="%s linear solve with %s does not converge although plain nonlinear block Gauss-Seidel converges for this model: %s" % (mode, lin, msg[:120]), measure=1.0)
                    return dict(viol=[v], nontrivial=True, digest="lin-nonconv", transitions=evals + 2, validated=1)
            return dict(viol=[], nontrivial=False, digest="nonconv:" + msg[:80], transitions=evals + 1, validated=0, inadmissible=True, counters=dict(nonconvergent=1), note=msg[:200])
        P[mode] = p
        evals += 2
    viol, entries, unrel, nz = [], 0, 0, 0
    wh = dict(topo=s["topo"], lin=lin)
    tags = {k: s[k] for k in ("model", "sym", "comp", "two", "ground", "npoints", "doc", "crm") if k in s}
    fvals = {m: np.concatenate([np.asarray(P[m].get_val(o), float).ravel() for o in of]) for m in modes}

    def xscale(w):
        return max(np.abs(np.asarray(P[modes[0]].get_val(w), float)).max(), 1.0)

    def rel_diff_all(Ta, Tb, fv):
        """per input block: largest |a-b| x |x| relative to the output's dominant scaled sensitivity max_j |d f_i/d x_j| |x_j|
        (taken over ALL inputs: an iterative linear solve resolves one output's adjoint - or one input's tangent - to a tolerance
        relative to its own norm, not entry by entry), with a round-off floor tied to the magnitude of the output"""
        rows = np.zeros(len(fv))
        for w in wrt:
            rows = np.maximum(rows, np.abs(Tb[w]).max(axis=1) * xscale(w))
        rows = np.maximum(rows, 1e-4 * (np.abs(fv) + 1e-12))
        rows = np.maximum(rows, 1e-9 * rows.max())
        return {w: (np.abs(Ta[w] - Tb[w]).max(axis=1) * xscale(w) / rows).max() for w in wrt}

    # (b) fwd vs rev
    if len(modes) == 2:
        for w, e in rel_diff_all(Tm["fwd"], Tm["rev"], fvals["fwd"]).items():
            entries += Tm["fwd"][w].size
            if not e <= (TOL_MODE if lin == "direct" else TOL_SOLVER):
                viol.append(dict(sig=dict(oracle="fwd_equals_rev", wrt=w, **wh, **tags), msg="forward and reverse totals w.r.t. %s differ by %.2e of the output's dominant scaled sensitivity" % (w, e), measure=float(e)))
    # (c) against DirectSolver
    if lin != "direct":
        pd, ofd, wrtd, _ = build(dict(s, lin="direct"), "rev")
        pd.run_model()
        Td = totals(pd, ofd, wrtd)
        evals += 2
        for mode in modes:
            for w, e in rel_diff_all(Tm[mode], Td, fvals[mode]).items():
                entries += Td[w].size
                if not e <= TOL_SOLVER:
                    viol.append(dict(sig=dict(oracle="solver_independent", wrt=w, mode=mode, **wh, **tags), msg="%s totals w.r.t. %s with linear solver %s differ from DirectSolver by %.2e of the output's dominant scaled sensitivity" % (mode, w, lin, e), measure=float(e)))
        dg = digest_arrays(*[Td[w] for w in wrt])
        return dict(viol=viol, nontrivial=True, digest=dg, transitions=evals, validated=entries, entries=entries)
    # (a) Richardson differences of the converged analysis (DirectSolver states only: the analysis itself does not depend on the linear solver)
    p = P[modes[0]]
    osz = [p.get_val(o).size for o in of]
    parts = []
    for w in wrt:
        x0 = np.array(p.get_val(w), dtype=float)

        def f(x, w=w):
            p.set_val(w, x.reshape(x0.shape))
            p.run_model()
            return np.concatenate([np.asarray(p.get_val(o), float).ravel() for o in of])

        sc = np.abs(x0).max()
        hs = sc if sc > 0 else 1.0
        if w.split(".")[-1].rstrip("_01") in ("alpha", "beta") or w.endswith("angle_of_attack") or w.endswith("yaw_angle"):
            hs = max(hs, 1.0)
        if "cg" in w or "twist" in w or "shear" in w or w.endswith("sweep") or w.endswith("dihedral") or w.endswith("x_aero") or w.endswith("omega"):
            hs = max(hs, 1.0)
        J, E, floor, h = ref_deriv.jacobian(f, x0, hrel=1e-3, hscale=hs, noise_rel=1e-11)
        evals += 6 * x0.size + 1
        p.set_val(w, x0)
        p.run_model()
        parts.append(J)
        nz += int(np.count_nonzero(J))
        for mode in modes:
            an = Tm[mode][w]
            bad, un, S, rel = ref_deriv.compare(an, J, E, floor, rtol=TOL_FD)
            entries += an.size
            unrel += int(un.sum())
            if bad.any():
                r0 = 0
                for o, n in zip(of, osz):
                    blk = bad[r0 : r0 + n]
                    if blk.any():
                        relb = np.where(blk, rel[r0 : r0 + n], 0.0)
                        i, j = np.unravel_index(np.argmax(relb), relb.shape)
                        viol.append(dict(sig=dict(oracle="richardson_total", of=o.split(".")[-1], wrt=w.split(".")[-1], mode=mode, **wh, **tags), msg="d %s/d %s [%d,%d] (%s): total %.8g, Richardson %.8g +- %.1e (%d of %d entries)" % (o, w, i, j, mode, an[r0 + i, j], J[r0 + i, j], E[r0 + i, j], int(blk.sum()), blk.size), measure=float(relb.max())))
                    r0 += n
    return dict(viol=viol, nontrivial=bool(nz > 0), digest=digest_arrays(*parts), transitions=evals, validated=entries, unreliable=unrel, entries=entries)
