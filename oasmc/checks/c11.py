"""C11 - load and displacement transfer conserve force and moment; rigid motion is exact."""
import itertools

import numpy as np
import openmdao.api as om

from oasmc import builders, gen
from oasmc.engine import digest_arrays

ID = "C11"
RULE = (
    "complete product nx x ny x side x deformed-mesh family x spar location x reference point; in every state the load transfer and the "
    "mesh-node force export are executed on EVERY unit panel force (a complete basis of the force space: conservation then holds for all "
    "force fields of that shape by linearity) plus generic fields and all basis pairs (additivity); displacement transfer on zero, every "
    "unit translation, and a three-step rotation ladder about every axis; non-trivial = distinct (mesh, spar) configurations"
)
ASSUMPTIONS = ["finite alphabets for mesh shapes and spar locations; nx<=4, ny<=5", "OpenMDAO/NumPy trusted"]
BOUND = {"quick": "nx<=4, ny<=5 exhaustively + production-size meshes 7x12, 9x17, 6x11 (thorough also 10x31, 3x40); export chain: every ordered selection of 1-3 surfaces x 3 symmetry patterns", "thorough": "nx<=5, ny<=7"}
TOL = 1e-10


def states(tier, seed):
    fam = seed % 3
    st = []
    nxs = [2, 3, 4] if tier == "quick" else [2, 3, 4, 5]  # interior mesh rows exist from nx = 4 on
    sides = [("left", 2), ("left", 3), ("full", 5), ("right", 3)] + ([("full", 3), ("full", 7), ("left", 5)] if tier == "thorough" else [])
    # "wingbox+key": a wingbox surface whose dictionary also carries the documented (tube) key fem_origin - the wingbox
    # model derives the elastic axis from the section data everywhere, the key must not move the moment reference alone
    origins = [0.35, 0.0, 0.25, 0.7, 1.0, "wingbox", "wingbox+key", "wingbox_camber"]
    for nx, (side, ny), pf, fo in itertools.product(nxs, sides, ["swept", "twdi", "camber"], origins):
        if pf == "camber" and nx < 3:
            continue
        st.append(dict(part="loads", nx=nx, ny=ny, side=side, pf=pf, origin=fo, fam=fam))
    for nx, (side, ny), pf, nsurf in itertools.product(nxs, sides, ["swept", "twdi"], [1, 2]):
        st.append(dict(part="mpf", nx=nx, ny=ny, side=side, pf=pf, nsurf=nsurf, fam=fam))
    # the transfer inside the coupled aerostructural point, two surfaces of IDENTICAL mesh shape with different spar locations /
    # structural models: each surface's nodal loads carry the force and moment of ITS panel forces on the converged deformed mesh
    for pair, sym, nx in itertools.product(["tube0.35+tube0.6", "tube0.25+wingbox", "wingbox+tube0.7"], [True, False], [2, 3]):
        st.append(dict(part="coupled", pair=pair, sym=sym, nx=nx, fam=fam))
    # the flattened nodal vectors handed to external solvers (MPhys export chain) for every ordered selection of 1-3 surfaces
    # of different sizes
    for n in (1, 2, 3):
        for sel in itertools.permutations(range(3), n):
            for symp in ("all", "none", "mixed"):
                st.append(dict(part="export", sel=list(sel), symp=symp, fam=fam))
    for nx, (side, ny), pf, fo in itertools.product(nxs, sides, ["swept", "twdi", "camber"], [0.35, 0.0, 1.0, "wingbox", "wingbox+key", "wingbox_camber"]):
        if pf == "camber" and nx < 3:
            continue
        st.append(dict(part="disp", nx=nx, ny=ny, side=side, pf=pf, origin=fo, fam=fam))
        if nx == 3 and pf != "camber":
            # the same surface whose dictionary also carries the documented geometry keys (reference axis, sweep, twist ...)
            st.append(dict(part="disp", nx=nx, ny=ny, side=side, pf=pf, origin=fo, xkeys=True, fam=fam))
            st.append(dict(part="loads", nx=nx, ny=ny, side=side, pf=pf, origin=fo, xkeys=True, fam=fam))
    # production-size meshes (index arithmetic of the transfer beyond nx = 5, ny = 7)
    big = [(7, "left", 12), (9, "full", 17), (6, "right", 11)] + ([(10, "full", 31), (3, "left", 40)] if tier == "thorough" else [])
    for (nx, side, ny), pf, fo in itertools.product(big, ["twdi", "camber"], [0.35, 0.0, "wingbox"]):
        st.append(dict(part="loads", nx=nx, ny=ny, side=side, pf=pf, origin=fo, fam=fam))
        st.append(dict(part="disp", nx=nx, ny=ny, side=side, pf=pf, origin=fo, fam=fam))
    for (nx, side, ny), nsurf in itertools.product(big, [1, 2]):
        st.append(dict(part="mpf", nx=nx, ny=ny, side=side, pf="twdi", nsurf=nsurf, fam=fam))
    return st, 0


# documented geometry keys that the transfer components have no business reading: their presence must change nothing
XKEYS = dict(ref_axis_pos=0.6, taper=0.7, sweep=10.0, dihedral=5.0, span=12.0, chord_cp=np.array([1.0, 1.2]), twist_cp=np.array([2.0, -1.0]), xshear_cp=np.array([0.0, 0.3]), zshear_cp=np.array([0.0, 0.2]))


def surf_of(s, mesh):
    surf = _surf_of(s, mesh)
    if s.get("xkeys"):
        surf.update({k: (v.copy() if isinstance(v, np.ndarray) else v) for k, v in XKEYS.items()})
    return surf


def _surf_of(s, mesh):
    sym = s["side"] != "full"
    if s.get("origin") == "wingbox":
        return builders.struct_surface("w", mesh, sym, "wingbox")
    if s.get("origin") == "wingbox+key":
        return builders.struct_surface("w", mesh, sym, "wingbox", fem_origin=0.2)
    if s.get("origin") == "wingbox_camber":
        # strongly cambered section: the LOWER surface lies above the chord line at the rear spar (and the spars have unequal height)
        surf = builders.struct_surface("w", mesh, sym, "wingbox")
        ramp = 0.12 * (surf["data_x_upper"] - surf["data_x_upper"][0])
        surf["data_y_upper"] = surf["data_y_upper"] + ramp
        surf["data_y_lower"] = surf["data_y_lower"] + ramp
        assert surf["data_y_lower"][-1] > 0
        return surf
    return builders.struct_surface("w", mesh, sym, "tube", fem_origin=s.get("origin", 0.35))


def deformed(s):
    """a generic deformed mesh: planform family plus a smooth non-rigid field"""
    m = gen.make_mesh(s["pf"], s["nx"], s["ny"], s["side"], s["fam"], asym=(s["side"] == "full"))
    m = m + 0.05 * np.sin(1.3 * m[:, :, [1, 0, 1]] + np.array([0.2, 0.5, 0.9]))
    return m


def run_state(s):
    return globals()["part_" + s["part"]](s)


def fem_origin_of(surf):
    if surf["fem_model_type"] == "tube":
        return surf["fem_origin"]
    yu, xu, yl = surf["data_y_upper"], surf["data_x_upper"], surf["data_y_lower"]
    return float((xu[0] * (yu[0] - yl[0]) + xu[-1] * (yu[-1] - yl[-1])) / ((yu[0] - yl[0]) + (yu[-1] - yl[-1])))


def part_loads(s):
    from openaerostruct.transfer.load_transfer import LoadTransfer

    m = deformed(s)
    surf = surf_of(s, m)
    nx, ny = s["nx"], s["ny"]
    p = om.Problem(reports=False)
    p.model.add_subsystem("c", LoadTransfer(surface=surf), promotes=["*"])
    p.setup()
    p.set_val("def_mesh", m)
    w2 = fem_origin_of(surf)
    spts = (1 - w2) * m[0] + w2 * m[-1]
    apts = 0.5 * (0.75 * m[:-1, :-1] + 0.25 * m[1:, :-1]) + 0.5 * (0.75 * m[:-1, 1:] + 0.25 * m[1:, 1:])
    refs = [np.zeros(3), np.array([0.7, -1.3, 0.4])]
    n = 3 * (nx - 1) * (ny - 1)
    viol, val, runs = [], 0, 0
    wh = dict(part="loads", origin=str(s["origin"]))
    # the nodes the loads are applied to are the structural nodes the library itself places on this mesh
    from openaerostruct.structures.compute_nodes import ComputeNodes

    q = om.Problem(reports=False)
    q.model.add_subsystem("n", ComputeNodes(surface=surf), promotes=["*"])
    q.setup()
    q.set_val("mesh", m)
    q.run_model()
    val += 1
    e = np.abs(q["nodes"] - spts).max() / np.abs(m).max()
    if not e <= 1e-12:
        viol.append(dict(sig=dict(oracle="structural_nodes_on_spar_line", **wh), msg="ComputeNodes places the nodes %.2e (rel.) away from the spar line at chord fraction %.4f" % (e, w2), measure=float(e)))
    spts = q["nodes"].copy()

    def loads_of(F):
        nonlocal runs
        p.set_val("sec_forces", F)
        p.run_model()
        runs += 1
        return p["loads"].copy()

    def check(F, L, tag):
        nonlocal val
        val += 1
        sc = max(np.abs(F).max(), 1e-300)
        e = np.abs(L[:, :3].sum(axis=0) - F.reshape(-1, 3).sum(axis=0)).max() / sc
        if not e <= TOL:
            viol.append(dict(sig=dict(oracle="force_conservation", observable="loads", **wh), msg="sum of nodal forces differs from sum of panel forces by %.2e (%s)" % (e, tag), measure=float(e)))
        for r in refs:
            val += 1
            Ms = (np.cross(spts - r, L[:, :3]) + L[:, 3:]).sum(axis=0)
            Ma = np.cross(apts - r, F).reshape(-1, 3).sum(axis=0)
            arm = max(np.abs(apts - r).max(), 1.0)
            e = np.abs(Ms - Ma).max() / (sc * arm)
            if not e <= TOL:
                viol.append(dict(sig=dict(oracle="moment_conservation", observable="loads", **wh), msg="total moment of nodal loads differs from that of panel forces at quarter-chord points by %.2e (%s)" % (e, tag), measure=float(e)))

    basis = []
    for k in range(n):
        F = np.zeros(n)
        F[k] = 1.0e3
        F = F.reshape(nx - 1, ny - 1, 3)
        L = loads_of(F)
        basis.append(L)
        check(F, L, "unit force %d" % k)
    for g in range(2):
        F = gen.gen((nx - 1, ny - 1, 3), 5 + g, -2e3, 3e3, s["fam"])
        L = loads_of(F)
        check(F, L, "generic %d" % g)
        val += 1
        Lsum = sum(c * b for c, b in zip(F.ravel() / 1e3, basis))
        e = np.abs(L - Lsum).max() / max(np.abs(L).max(), 1e-300)
        if not e <= TOL:
            viol.append(dict(sig=dict(oracle="linearity", observable="loads", **wh), msg="loads of a generic field differ from the superposition of unit-force loads by %.2e" % e, measure=float(e)))
    if n <= 24:
        for i, j in itertools.combinations(range(n), 2):
            F = np.zeros(n)
            F[i] = F[j] = 1.0e3
            L = loads_of(F.reshape(nx - 1, ny - 1, 3))
            val += 1
            e = np.abs(L - basis[i] - basis[j]).max() / 1e3
            if not e <= TOL:
                viol.append(dict(sig=dict(oracle="additivity", observable="loads", **wh), msg="loads(e%d+e%d) != loads(e%d)+loads(e%d): %.2e" % (i, j, i, j, e), measure=float(e)))
    return dict(viol=viol, nontrivial=True, digest=digest_arrays(np.array(basis)), transitions=runs, validated=val)


EXPORT_SPECS = [dict(pf="swept", nx=3, ny=5, off=None), dict(pf="rect", nx=2, ny=3, off=[5.0, 0.0, 0.7], span=3.0, chord=0.8), dict(pf="twdi", nx=4, ny=3, off=[-4.0, 0.0, -0.6], span=5.0, chord=1.0)]


def part_export(s):
    """AeroMesh + MeshPointForces + MuxSurfaceForces (+ DemuxSurfaceMesh): the exported pair (coordinates, nodal forces) carries the
    total force and moment of the panel forces acting at the quarter-chord points, on the jig and on a deformed mesh"""
    from mphys.core import MPhysVariables
    from openaerostruct.aerodynamics.mesh_point_forces import MeshPointForces
    from openaerostruct.mphys.aero_mesh import AeroMesh
    from openaerostruct.mphys.demux_surface_mesh import DemuxSurfaceMesh
    from openaerostruct.mphys.mux_surface_forces import MuxSurfaceForces

    fam = s["fam"]
    surfs = []
    for pos, k in enumerate(s["sel"]):
        sp = EXPORT_SPECS[k]
        sym = {"all": True, "none": False, "mixed": pos % 2 == 0}[s["symp"]]
        kw = dict(span=sp["span"], chord=sp["chord"]) if "span" in sp else {}
        m = gen.make_mesh(sp["pf"], sp["nx"], sp["ny"] if sym else 2 * sp["ny"] - 1, "left" if sym else "full", fam, asym=not sym, offset=sp["off"], **kw)
        surfs.append(builders.aero_surface("s%d" % k, m, sym))
    p = om.Problem(reports=False)
    p.model.add_subsystem("mesh", AeroMesh(surfaces=surfs), promotes=["*"])
    p.model.add_subsystem("pf", MeshPointForces(surfaces=surfs), promotes=["*"])
    p.model.add_subsystem("mux", MuxSurfaceForces(surfaces=surfs), promotes=["*"])
    p.setup()
    q = om.Problem(reports=False)
    q.model.add_subsystem("demux", DemuxSurfaceMesh(surfaces=surfs), promotes=["*"])
    q.setup()
    XN, X0N, FN = MPhysVariables.Aerodynamics.Surface.COORDINATES, MPhysVariables.Aerodynamics.Surface.Mesh.COORDINATES, MPhysVariables.Aerodynamics.Surface.LOADS
    viol, val = [], 0
    wh = dict(nsurf=len(surfs), symp=s["symp"])
    refs = [np.zeros(3), np.array([0.7, -1.3, 0.4])]
    # force fields: one generic field on all surfaces, then one surface loaded at a time (first and last panel, unit force)
    fields = [{sf["name"]: gen.gen((sf["mesh"].shape[0] - 1, sf["mesh"].shape[1] - 1, 3), 7 + i, -2e3, 3e3, fam) for i, sf in enumerate(surfs)}]
    for sf in surfs:
        for idx in (0, -1):
            F = {x["name"]: np.zeros((x["mesh"].shape[0] - 1, x["mesh"].shape[1] - 1, 3)) for x in surfs}
            F[sf["name"]].reshape(-1, 3)[idx] = [1.0e3, -2.0e3, 3.0e3]
            fields.append(F)
    ntot = sum(sf["mesh"].shape[0] * sf["mesh"].shape[1] for sf in surfs)
    for F in fields:
        for n, f in F.items():
            p.set_val(n + "_sec_forces", f)
        p.run_model()
        fa = np.array(p.get_val(FN)).reshape(-1, 3)
        x0 = np.array(p.get_val(X0N)).reshape(-1, 3)
        val += 1
        if fa.shape[0] != ntot or x0.shape[0] != ntot:
            viol.append(dict(sig=dict(oracle="export_size", **wh), msg="exported vectors have %d / %d nodes, the surfaces have %d" % (fa.shape[0], x0.shape[0], ntot), measure=1.0))
            continue
        xd = x0 + 0.05 * np.sin(1.7 * x0[:, [1, 2, 0]] + np.array([0.3, 0.1, 0.8]))
        q.set_val(XN, xd.ravel())
        q.run_model()
        sc = max(np.abs(f).max() for f in F.values())
        Ftot = sum(f.reshape(-1, 3).sum(axis=0) for f in F.values())
        val += 1
        e = np.abs(fa.sum(axis=0) - Ftot).max() / sc
        if not e <= TOL:
            viol.append(dict(sig=dict(oracle="force_conservation", observable="exported_nodal_forces", **wh), msg="exported nodal forces sum to %s, the panel forces to %s (rel %.2e)" % (fa.sum(axis=0), Ftot, e), measure=float(e)))
        for tag, X, meshes in (("jig", x0, {sf["name"]: sf["mesh"] for sf in surfs}), ("deformed", xd, {sf["name"]: np.array(q.get_val(sf["name"] + "_def_mesh")) for sf in surfs})):
            for r in refs:
                val += 1
                Ma = np.zeros(3)
                for n, f in F.items():
                    m = meshes[n]
                    qc = 0.75 * m[:-1] + 0.25 * m[1:]
                    pts = 0.5 * (qc[:, :-1] + qc[:, 1:])
                    Ma += np.cross(pts - r, f).reshape(-1, 3).sum(axis=0)
                Mn = np.cross(X - r, fa).sum(axis=0)
                e = np.abs(Mn - Ma).max() / (sc * max(np.abs(X - r).max(), 1.0))
                if not e <= TOL:
                    viol.append(dict(sig=dict(oracle="moment_conservation", observable="exported_nodal_forces", mesh=tag, **wh), msg="moment of the exported nodal forces on the %s mesh differs from that of the panel forces by %.2e" % (tag, e), measure=float(e)))
    return dict(viol=viol, nontrivial=True, digest=digest_arrays(fa, x0), transitions=len(fields), validated=val)


def part_coupled(s):
    sym, fam = s["sym"], s["fam"]
    side = "left" if sym else "full"
    ny = 3 if sym else 5
    surfs = []
    for k, spec in enumerate(s["pair"].split("+")):
        m = gen.make_mesh(["swept", "twdi"][k], s["nx"], ny, side, fam, asym=not sym, span=[10.0, 5.0][k], chord=[1.6, 1.0][k], offset=[[0, 0, 0], [7.0, 0.0, 0.8]][k])
        kw = dict(struct_weight_relief=True, with_viscous=True)
        if spec.startswith("tube"):
            surfs.append(builders.struct_surface(["wing", "tail"][k], m, sym, "tube", fem_origin=float(spec[4:]), thickness_cp=np.array([0.02, 0.03]) * [1.0, 0.5][k], **kw))
        else:
            surfs.append(builders.struct_surface(["wing", "tail"][k], m, sym, "wingbox", **kw))
    p = builders.build_aerostruct(surfs, dict(Mach_number=0.5, W0=2.0e3, v=100.0, rho=0.9, alpha=4.0, beta=0.0 if sym else 3.0, speed_of_sound=200.0, R=2.0e6, load_factor=1.3))
    builders.tighten(p, nl="default", lin="default")
    p.run_model()
    viol, val = [], 0
    A = "AS_point_0.coupled."
    refs = [np.zeros(3), np.array([3.0, -2.0, 1.0])]
    for sf in surfs:
        n = sf["name"]
        dm = np.array(p[A + n + ".def_mesh"])
        F = np.array(p[A + "aero_states." + n + "_sec_forces"])
        L = np.array(p[A + n + "_loads.loads"])
        pts = np.array(p[n + ".nodes"]) + np.array(p[A + n + ".disp"])[:, :3]
        qc = 0.75 * dm[:-1] + 0.25 * dm[1:]
        ap_ = 0.5 * (qc[:, :-1] + qc[:, 1:])
        sc = max(np.abs(F).sum(), 1e-300)
        val += 1
        e = np.abs(L[:, :3].sum(axis=0) - F.reshape(-1, 3).sum(axis=0)).max() / sc
        if not e <= 1e-10:
            viol.append(dict(sig=dict(oracle="force_conservation", part="coupled", surf=n), msg="%s: nodal loads of the coupled point do not sum to its panel forces (rel %.2e)" % (n, e), measure=float(e)))
        for r in refs:
            val += 1
            Mn = (np.cross(pts - r, L[:, :3]) + L[:, 3:]).sum(axis=0)
            Ma = np.cross(ap_ - r, F).reshape(-1, 3).sum(axis=0)
            e = np.abs(Mn - Ma).max() / (sc * max(np.abs(ap_ - r).max(), 1.0))
            if not e <= 1e-9:
                viol.append(dict(sig=dict(oracle="moment_conservation", part="coupled", surf=n), msg="%s (%s): total moment of the nodal loads at the displaced nodes differs from that of the panel forces at the quarter-chord points of the deformed mesh by %.2e" % (n, s["pair"], e), measure=float(e)))
    return dict(viol=viol, nontrivial=True, digest=digest_arrays(L), transitions=1, validated=val)


def part_mpf(s):
    from openaerostruct.aerodynamics.mesh_point_forces import MeshPointForces

    ms = [deformed(s)]
    if s["nsurf"] == 2:
        s2 = dict(s, nx=2, ny=3 if s["side"] == "full" else 2, pf="swept")
        ms.append(deformed(s2) + np.array([5.0, 0.0, 0.5]))
    surfs = [builders.aero_surface("s%d" % k, m, s["side"] != "full") for k, m in enumerate(ms)]
    p = om.Problem(reports=False)
    p.model.add_subsystem("c", MeshPointForces(surfaces=surfs), promotes=["*"])
    p.setup()
    viol, val, runs = [], 0, 0
    refs = [np.zeros(3), np.array([0.7, -1.3, 0.4])]
    outs = []
    for k, m in enumerate(ms):
        nx, ny = m.shape[:2]
        n = 3 * (nx - 1) * (ny - 1)
        apts = 0.5 * (0.75 * m[:-1, :-1] + 0.25 * m[1:, :-1]) + 0.5 * (0.75 * m[:-1, 1:] + 0.25 * m[1:, 1:])
        fields = []
        for j in range(n):
            F = np.zeros(n)
            F[j] = 1.0e3
            fields.append(F.reshape(nx - 1, ny - 1, 3))
        fields.append(gen.gen((nx - 1, ny - 1, 3), 7, -2e3, 3e3, s["fam"]))
        for F in fields:
            for kk, mm in enumerate(ms):
                p.set_val("s%d_sec_forces" % kk, F if kk == k else np.zeros((mm.shape[0] - 1, mm.shape[1] - 1, 3)))
            p.run_model()
            runs += 1
            for kk, mm in enumerate(ms):
                f = p["s%d_mesh_point_forces" % kk]
                val += 1
                if kk != k:
                    if np.abs(f).max() != 0.0:
                        viol.append(dict(sig=dict(oracle="surface_isolation", observable="mesh_point_forces"), msg="forces on surface %d produce node forces on surface %d" % (k, kk), measure=float(np.abs(f).max())))
                    continue
                sc = np.abs(F).max()
                e = np.abs(f.reshape(-1, 3).sum(axis=0) - F.reshape(-1, 3).sum(axis=0)).max() / sc
                if not e <= TOL:
                    viol.append(dict(sig=dict(oracle="force_conservation", observable="mesh_point_forces"), msg="sum of mesh-node forces differs from panel forces by %.2e" % e, measure=float(e)))
                for r in refs:
                    val += 1
                    Mn = np.cross(mm - r, f).reshape(-1, 3).sum(axis=0)
                    Ma = np.cross(apts - r, F).reshape(-1, 3).sum(axis=0)
                    e = np.abs(Mn - Ma).max() / (sc * max(np.abs(apts - r).max(), 1.0))
                    if not e <= TOL:
                        viol.append(dict(sig=dict(oracle="moment_conservation", observable="mesh_point_forces"), msg="moment of mesh-node forces differs from panel forces at quarter-chord mid-points by %.2e" % e, measure=float(e)))
                outs.append(f.copy())
    return dict(viol=viol, nontrivial=True, digest=digest_arrays(*outs[:6]), transitions=runs, validated=val)


def part_disp(s):
    from openaerostruct.transfer.displacement_transfer_group import DisplacementTransferGroup

    m = gen.make_mesh(s["pf"], s["nx"], s["ny"], s["side"], s["fam"], asym=(s["side"] == "full"))
    surf = surf_of(s, m)
    w2 = fem_origin_of(surf)
    nodes = (1 - w2) * m[0] + w2 * m[-1]
    ny = s["ny"]
    p = om.Problem(reports=False)
    ivc = om.IndepVarComp()
    ivc.add_output("mesh", val=m, units="m")
    ivc.add_output("nodes", val=nodes, units="m")
    ivc.add_output("disp", val=np.zeros((ny, 6)), units="m")
    p.model.add_subsystem("ivc", ivc, promotes=["*"])
    p.model.add_subsystem("c", DisplacementTransferGroup(surface=surf), promotes=["*"])
    p.setup()
    viol, val, runs = [], 0, 0
    wh = dict(part="disp")

    def run(d):
        nonlocal runs
        p.set_val("disp", d)
        p.run_model()
        runs += 1
        return p["def_mesh"].copy()

    val += 1
    if not np.array_equal(run(np.zeros((ny, 6))), m):
        viol.append(dict(sig=dict(oracle="zero_disp_identity", **wh), msg="zero displacement changes the mesh (max %.2e)" % np.abs(run(np.zeros((ny, 6))) - m).max(), measure=float(np.abs(run(np.zeros((ny, 6))) - m).max())))
    for k in range(3):
        for amp in (0.37, -1.1e-3):
            d = np.zeros((ny, 6))
            d[:, k] = amp
            want = m.copy()
            want[:, :, k] += amp
            val += 1
            e = np.abs(run(d) - want).max()
            if not e <= 1e-14 * max(np.abs(m).max(), 1.0):
                viol.append(dict(sig=dict(oracle="translation_exact", **wh), msg="pure translation along axis %d is off by %.2e" % (k, e), measure=float(e)))
    # per-node translation field (non-uniform): each section translates with its own node
    d = np.zeros((ny, 6))
    d[:, :3] = gen.gen((ny, 3), 2, -0.2, 0.3, s["fam"])
    val += 1
    e = np.abs(run(d) - (m + d[None, :, :3])).max()
    if not e <= 1e-14 * max(np.abs(m).max(), 1.0):
        viol.append(dict(sig=dict(oracle="translation_exact", **wh), msg="section-wise translation is off by %.2e" % e, measure=float(e)))
    arm = m - nodes[None, :, :]
    asc = np.abs(arm).max()
    for k in range(3):
        errs = []
        for th in (1e-2, 5e-3, 2.5e-3):
            d = np.zeros((ny, 6))
            w = np.zeros(3)
            w[k] = th
            d[:, 3 + k] = th * (1.0 + 0.3 * np.arange(ny) / ny)  # different angle per section
            want = m + np.cross(d[None, :, 3:], arm)
            errs.append(np.abs(run(d) - want).max())
        val += 2
        if not errs[0] <= 2.0 * (1.3e-2) ** 2 * asc:
            viol.append(dict(sig=dict(oracle="rotation_first_order", axis=k, **wh), msg="rotation about axis %d: deviation from rigid first-order rotation %.2e exceeds 2 theta^2 |arm|" % (k, errs[0]), measure=float(errs[0])))
        if errs[0] > 1e-13:
            r1, r2 = errs[1] / errs[0], errs[2] / errs[1]
            if not (0.2 <= r1 <= 0.3 and 0.2 <= r2 <= 0.3):
                viol.append(dict(sig=dict(oracle="rotation_second_order_remainder", axis=k, **wh), msg="remainder does not shrink 4x per halving of the angle: ratios %.3f %.3f" % (r1, r2), measure=float(max(abs(r1 - 0.25), abs(r2 - 0.25)))))
    return dict(viol=viol, nontrivial=True, digest=digest_arrays(run(d)), transitions=runs, validated=val)
