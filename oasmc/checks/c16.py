"""C16 - mass, centre of gravity and inertial / fuel / thrust loads are conserved."""
import itertools

import numpy as np

from oasmc import builders, gen
from oasmc.engine import digest_arrays

ID = "C16"
RULE = (
    "complete product beam geometry x ny x side x structural model x load factor x fuel (mass, reserve) x point-mass set (number, placement) "
    "on the real SpatialBeamAlone group, each state a history on ONE live Problem (initial point, engines off, load factor 0, load factor restored, point masses 0, fuel mass 0) with every identity re-verified after each transition; oracle = sums and moments computed by the harness from the group's own nodes, section areas and "
    "inputs; part aspoint: the same sums / moments for every surface inside a two-surface AerostructPoint (symmetry x model x inertial-load source per surface "
    "x load factor x equal/different ny); non-trivial = distinct configurations with non-zero mass"
)
ASSUMPTIONS = ["finite alphabets; ny<=5 in the complete product (7 thorough), single production-size beams up to 41 nodes, <=2 point masses", "g = 9.80665", "OpenMDAO/NumPy trusted"]
BOUND = {"quick": "ny in {2,3} half / {3,5} full exhaustively + beams of 16 / 21 / 41 nodes", "thorough": "ny up to 7"}
G0 = 9.80665
TOL = 1e-10

PM_SETS = {
    "none": None,
    "on_node": dict(n=1, where=["node"]),
    "between": dict(n=1, where=["between"]),
    "outboard": dict(n=1, where=["outboard"]),
    "two": dict(n=2, where=["between", "node"]),
}


def states(tier, seed):
    fam = seed % 3
    st = []
    sides = [("left", 2), ("left", 3), ("full", 3), ("full", 5), ("right", 3)] + ([("left", 5), ("full", 7)] if tier == "thorough" else [])
    for pf, (side, ny), model, nfac, (fm, res), pm in itertools.product(["swept", "twdi"], sides, ["tube", "wingbox"], [1.0, 2.5, -1.0], [(None, 0.0), (0.0, 0.0), (1.0e4, 500.0)], list(PM_SETS)):
        if fm is not None and model == "tube":
            continue
        st.append(dict(pf=pf, side=side, ny=ny, model=model, nfac=nfac, fuel=fm, reserve=res, pm=pm, fam=fam))
        # a geometry variable that moves the spanwise stations away from those of the user's mesh
        if model == "wingbox" and fm is not None and pm in ("none", "two"):
            st.append(dict(pf=pf, side=side, ny=ny, model=model, nfac=nfac, fuel=fm, reserve=res, pm=pm, span=13.0 if side != "full" else 7.5, yshear=True, fam=fam))
        # the same structure at model scale (millimetre elements): mass and load identities carry no length scale
        if pf == "swept" and pm == "none" and fm is None:
            st.append(dict(pf=pf, side=side, ny=ny, model=model, nfac=nfac, fuel=fm, reserve=res, pm=pm, gscale=2.0e-3, fam=fam))
        # every inertial load source ALONE: without structural weight relief (the load factor reaches each source by its own wiring)
        if pf == "swept" and (fm is not None or pm != "none") and not (fm is not None and pm != "none" and tier == "quick"):
            st.append(dict(pf=pf, side=side, ny=ny, model=model, nfac=nfac, fuel=fm, reserve=res, pm=pm, relief=False, fam=fam))
    # production-size beams (node / element indexing of every load source beyond ny = 7)
    for pf, (side, ny), model, (fm, res), pm in itertools.product(["twdi"], [("left", 21), ("full", 41), ("right", 16)], ["tube", "wingbox"], [(None, 0.0), (1.0e4, 500.0)], ["none", "two"]):
        if fm is not None and model == "tube":
            continue
        st.append(dict(pf=pf, side=side, ny=ny, model=model, nfac=2.5, fuel=fm, reserve=res, pm=pm, fam=fam))
    # the same identities inside a two-surface AerostructPoint: every surface that carries inertial loads sees the load factor of the flight point
    for sym, (sw, st_), nfac, same, model in itertools.product([True, False], [("relief", "relief"), ("relief", "none"), ("none", "relief"), ("fuel", "relief"), ("relief", "fuel"), ("fuel", "fuel")], [2.5, -1.0], [True, False], ["tube", "wingbox"]):
        if "fuel" in (sw, st_) and model == "tube":
            continue
        st.append(dict(part="aspoint", sym=sym, src=(sw, st_), nfac=nfac, same=same, model=model, fam=fam))
    return st, 0


def run_state(s):
    if s.get("part") == "aspoint":
        return part_aspoint(s)
    return part_alone(s)


def part_aspoint(s):
    sym, fam, n = s["sym"], s["fam"], s["nfac"]
    side = "left" if sym else "full"
    ny = 3 if sym else 5
    mesh1 = gen.make_mesh("twdi", 2, ny, side, fam, asym=not sym, span=10.0, chord=1.6)
    mesh2 = gen.make_mesh("swept", 2, ny if s["same"] else (2 if sym else 3), side, fam, asym=not sym, span=6.0, chord=1.1, offset=[6.0, 0.0, 0.8])
    surfs = []
    for k, (name, mesh, src) in enumerate([("wing", mesh1, s["src"][0]), ("tail", mesh2, s["src"][1])]):
        kw = dict(struct_weight_relief=src in ("relief", "fuel"), distributed_fuel_weight=src == "fuel")
        sf = builders.struct_surface(name, mesh, sym, s["model"], **kw)
        sf["mrho"] = sf["mrho"] * (1.0 + 0.3 * k)
        surfs.append(sf)
    fl = dict(Mach_number=0.4, W0=2.0e3, v=90.0, rho=0.9, alpha=3.0, speed_of_sound=220.0, R=2.0e6, load_factor=n, fuel_mass=4.0e3)
    p = builders.build_aerostruct(surfs, fl)
    builders.tighten(p, nl="default", lin="default")
    p.run_model()
    viol, val = [], 0
    mult = 2.0 if sym else 1.0
    for sf, src in zip(surfs, s["src"]):
        nm = sf["name"]
        if src == "none":
            continue
        nodes = p[nm + ".nodes"]
        me = p[nm + ".element_mass"]
        mid = 0.5 * (nodes[1:] + nodes[:-1])
        checks = []
        L = p["AS_point_0.coupled.%s.struct_states.struct_weight_loads" % nm]
        W = n * G0 * me.sum()
        checks.append(("struct_weight_loads", L, np.array([0, 0, -W]), np.cross(mid, np.outer(me, [0, 0, -n * G0])).sum(axis=0), abs(W)))
        if src == "fuel":
            vols = p[nm + ".struct_setup.fuel_vols"]
            Wf = (4.0e3 + sf["Wf_reserve"]) * G0 * n / mult
            L = p["AS_point_0.coupled.%s.struct_states.fuel_weight_loads" % nm]
            checks.append(("fuel_weight_loads", L, np.array([0, 0, -Wf]), np.cross(mid, np.outer(vols / vols.sum(), [0, 0, -Wf])).sum(axis=0), abs(Wf)))
        for name, L, Fw, Mw, sc in checks:
            F = L[:, :3].sum(axis=0)
            M = (np.cross(nodes, L[:, :3]) + L[:, 3:]).sum(axis=0)
            for what, got, want, scale in (("sum", F, Fw, sc), ("moment", M, Mw, sc * np.abs(nodes).max())):
                val += 1
                e = np.abs(got - want).max() / scale
                if not e <= TOL:
                    viol.append(dict(sig=dict(oracle="conservation", observable="%s %s" % (what, name), group="AerostructPoint", surf=nm), msg="two-surface AerostructPoint (%s/%s, load factor %g): %s of %s on surface %s = %s, expected %s (rel %.2e)" % (s["src"][0], s["src"][1], n, what, name, nm, np.array2string(got, precision=8), np.array2string(want, precision=8), e), measure=float(e)))
    return dict(viol=viol, nontrivial=bool(val > 0), digest=digest_arrays(p["AS_point_0.coupled.wing.disp"], p["AS_point_0.coupled.tail.disp"]), transitions=1, validated=val)


def part_alone(s):
    import openmdao.api as om
    from openaerostruct.structures.wingbox_fuel_vol_delta import WingboxFuelVolDelta

    ny = s["ny"]
    sym = s["side"] != "full"
    m = gen.make_mesh(s["pf"], 2, ny, s["side"], s["fam"], asym=(s["side"] == "full"), span=10.0, chord=1.6) * s.get("gscale", 1.0)
    relief = s.get("relief", True)
    kw = dict(struct_weight_relief=relief, distributed_fuel_weight=s["fuel"] is not None)
    if s["model"] == "wingbox":
        kw["Wf_reserve"] = s["reserve"]
    if s.get("gscale"):
        gs_ = s["gscale"]
        if s["model"] == "tube":
            kw["thickness_cp"] = np.array([0.02, 0.02]) * gs_
        else:
            kw.update(spar_thickness_cp=np.array([0.006, 0.006]) * gs_, skin_thickness_cp=np.array([0.012, 0.012]) * gs_)
    if s.get("span"):
        kw["span"] = s["span"]
        kw["yshear_cp"] = np.array([0.0, 0.2, -0.1]) if s.get("yshear") else np.zeros(3)
    pmset = PM_SETS[s["pm"]]
    pm = None
    if pmset:
        kw["n_point_masses"] = pmset["n"]
    surf = builders.struct_surface("w", m, sym, s["model"], **kw)
    # structural node line (harness): tube fem_origin 0.35; wingbox from the airfoil data
    from oasmc.checks.c11 import fem_origin_of

    w2 = fem_origin_of(surf)
    nd = (1 - w2) * m[0] + w2 * m[-1]
    if pmset:
        locs = []
        for k, wh in enumerate(pmset["where"]):
            if wh == "node":
                y = nd[min(1, ny - 1), 1]
            elif wh == "between":
                y = 0.5 * (nd[0, 1] + nd[1, 1]) + 0.013
            else:
                y = nd[0, 1] - 0.8 if s["side"] != "right" else nd[-1, 1] + 0.8
            locs.append([1.1 + 0.3 * k, y, -0.35 - 0.1 * k])
        pm = dict(point_masses=[600.0 + 150 * k for k in range(pmset["n"])], engine_thrusts=[5.0e3 - 700 * k for k in range(pmset["n"])], point_mass_locations=locs)
    ext = np.concatenate([gen.gen((ny, 3), 3, -2e3, 4e3, s["fam"]), gen.gen((ny, 3), 4, -5e2, 5e2, s["fam"])], axis=1)
    p = builders.build_struct(surf, ext, load_factor=s["nfac"], pm=pm, setup=False)
    if s["model"] == "wingbox":
        p.model.add_subsystem("fvd", WingboxFuelVolDelta(surface=surf))
        p.model.connect("struct_setup.fuel_vols", "fvd.fuel_vols")
        p.model.add_subsystem("fb", om.IndepVarComp("fuelburn", val=3.0e3, units="kg"))
        p.model.connect("fb.fuelburn", "fvd.fuelburn")
    p.setup()
    p.set_solver_print(-1)
    if s["fuel"] is not None:
        p.set_val("fuel_mass", s["fuel"])
    p.run_model()
    nodes = p["nodes"]
    A = p["A"]
    Le = np.linalg.norm(nodes[1:] - nodes[:-1], axis=1)
    mid = 0.5 * (nodes[1:] + nodes[:-1])
    me = surf["mrho"] * surf["wing_weight_ratio"] * A * Le
    cur = dict(n=s["nfac"], fuel=s["fuel"], mp=None if not pmset else np.array(pm["point_masses"]), T=None if not pmset else np.array(pm["engine_thrusts"]), tag="")
    viol, val = [], 0
    wh = dict(model=s["model"], sym=sym)

    def cmp(name, got, want, scale=None, **kw_):
        nonlocal val
        val += 1
        got = np.asarray(got, float).ravel()
        want = np.asarray(want, float).ravel()
        sc = scale if scale is not None else max(np.abs(want).max(), 1e-300)
        e = np.abs(got - want).max() / sc
        if not e <= TOL:
            viol.append(dict(sig=dict(oracle="conservation", observable=name, **wh, **kw_, **({"point": cur["tag"]} if cur["tag"] else {})), msg="%s%s = %s, expected %s (rel %.2e)" % (cur["tag"] and "[live Problem, then %s] " % cur["tag"], name, np.array2string(got, precision=8), np.array2string(want, precision=8), e), measure=float(e)))

    def resultant(L, pts):
        F = L[:, :3].sum(axis=0)
        M = (np.cross(pts, L[:, :3]) + L[:, 3:]).sum(axis=0)
        return F, M

    mult = 2.0 if sym else 1.0
    # absolute scales of the first point: identities at the later special points (zero thrust, zero load factor) are measured
    # against the loads that were there a moment ago
    W_scale = abs(s["nfac"]) * G0 * me.sum()
    Wp_scale = 0.0 if not pmset else abs(s["nfac"]) * G0 * float(np.sum(pm["point_masses"]))
    T_scale = 0.0 if not pmset else float(np.sum(pm["engine_thrusts"]))

    def verify():
        n = cur["n"]
        cmp("structural_mass", p["structural_mass"], [mult * me.sum()])
        cmp("element_mass", p["element_mass"], me)
        cg = (me[:, None] * mid).sum(axis=0) / me.sum()
        if sym:
            cg[1] = 0.0
        cmp("cg_location", p["cg_location"], cg, max(np.abs(nodes).max(), 1.0))
        Wtot = n * G0 * me.sum()
        total = ext.copy()
        if relief:
            F, M = resultant(p["struct_states.struct_weight_loads"], nodes)
            cmp("sum struct_weight_loads", F, [0, 0, -Wtot], max(abs(Wtot), W_scale))
            Mw = np.cross(mid, np.outer(me, [0, 0, -n * G0])).sum(axis=0)
            cmp("moment struct_weight_loads", M, Mw, max(abs(Wtot), W_scale) * np.abs(nodes).max())
            total = ext + p["struct_states.struct_weight_loads"]
        if s["fuel"] is not None:
            vols = p["struct_setup.fuel_vols"]
            cmp("fuel_vols", vols, Le * p["A_int"])
            Wf = (cur["fuel"] + s["reserve"]) * G0 * n / mult
            L = p["struct_states.fuel_weight_loads"]
            F, M = resultant(L, nodes)
            cmp("sum fuel_weight_loads", F, [0, 0, -Wf], max(abs(Wf), 1.0))
            Mf = np.cross(mid, np.outer(vols / vols.sum(), [0, 0, -Wf])).sum(axis=0)
            cmp("moment fuel_weight_loads", M, Mf, max(abs(Wf), 1.0) * np.abs(nodes).max())
            total = total + L
        if pmset:
            loc = np.array(pm["point_mass_locations"])
            mp = cur["mp"]
            T = cur["T"]
            L = p["struct_states.loads_from_point_masses"]
            F, M = resultant(L, nodes)
            Wp = n * G0 * mp.sum()
            cmp("sum loads_from_point_masses", F, [0, 0, -Wp], max(abs(Wp), Wp_scale), pm=s["pm"])
            cmp("moment loads_from_point_masses", M, np.cross(loc, np.outer(mp, [0, 0, -n * G0])).sum(axis=0), max(abs(Wp), Wp_scale) * np.abs(loc).max(), pm=s["pm"])
            total = total + L
            L = p["struct_states.loads_from_thrusts"]
            F, M = resultant(L, nodes)
            cmp("sum loads_from_thrusts", F, [-T.sum(), 0, 0], max(T.sum(), T_scale), pm=s["pm"])
            cmp("moment loads_from_thrusts", M, np.cross(loc, np.outer(T, [-1.0, 0, 0])).sum(axis=0), max(T.sum(), T_scale) * np.abs(loc).max(), pm=s["pm"])
            total = total + L
        cmp("total_loads", p["struct_states.total_loads"], total, max(np.abs(total).max(), np.abs(ext).max()))
        if s["model"] == "wingbox":
            vols = p["struct_setup.fuel_vols"]
            want = vols.sum() - (3.0e3 + s["reserve"]) / mult / surf["fuel_density"]
            cmp("fuel_vol_delta", p["fvd.fuel_vol_delta"], [want], max(abs(want), vols.sum()))

    verify()
    # the same LIVE Problem taken through special points, one input group at a time (every identity must hold at each):
    # engines off (all thrusts exactly zero), then weightless (load factor exactly zero), then no payload / no fuel
    trans = 1
    seq = []
    if pmset:
        seq.append(("engines off", dict(engine_thrusts=np.zeros(pmset["n"]))))
    seq.append(("load factor 0", dict(load_factor=0.0)))
    seq.append(("load factor restored", dict(load_factor=s["nfac"])))
    if pmset:
        seq.append(("point masses 0", dict(point_masses=np.zeros(pmset["n"]))))
    if s["fuel"] is not None:
        seq.append(("fuel mass 0", dict(fuel_mass=0.0)))
    for tag, chg in seq:
        for k, v in chg.items():
            p.set_val(k, v)
            key = {"engine_thrusts": "T", "load_factor": "n", "point_masses": "mp", "fuel_mass": "fuel"}[k]
            cur[key] = np.asarray(v, float) if key in ("T", "mp") else float(v)
        cur["tag"] = tag
        p.run_model()
        trans += 1
        verify()
    return dict(viol=viol, nontrivial=bool(me.sum() > 0), digest=digest_arrays(p["struct_states.total_loads"]), transitions=trans, validated=val)
