"""C07 - mirror-image configurations give mirror-image results."""
import itertools

import numpy as np

from oasmc import builders, gen
from oasmc.engine import digest_arrays

ID = "C07"
RULE = (
    "complete product per part: (aero) asymmetric full-span surface sets x nx x ny x alpha x beta x omega x cg vs their reflection; "
    "(struct) asymmetric beams x tube/wingbox x generic loads vs reflection; (as) asymmetric aerostructural models (wing alone, wing + tail in both list orders) vs reflection; "
    "(aerolr) symmetric aircraft of 1-3 surfaces, every choice of modelled half (left / right) per surface vs all-left; (selfsym) mirror-symmetric full-span aerostructural models; (geom) left- vs right-half Geometry under each design variable and value; "
    "non-trivial = the compared field is non-zero and (for reflections) the configuration differs from its mirror image"
)
ASSUMPTIONS = ["finite alphabets; nx<=4, ny<=7 in the complete products (single production-size members up to 7x17), <=2 surfaces (3 in part aerolr)", "coupled solvers tightened to rtol 1e-13", "OpenMDAO/NumPy/SciPy trusted"]
BOUND = {"quick": "nx<=3 (+ one planform with nx=4), ny<=5 exhaustively; production-size lattices 7x17, 5x11, 6x13 and beams of 21 nodes in addition", "thorough": "nx<=4, ny<=7"}
TOL = 1e-9
TOLS = 1e-7
POLAR = np.array([1.0, -1.0, 1.0])
AXIAL = np.array([-1.0, 1.0, -1.0])


def states(tier, seed):
    fam = seed % 3
    st, inadm = [], 0
    pfs = ["swept", "twdi", "camber"] + (["rect", "crm"] if tier == "thorough" else [])
    nxs = [2, 3] if tier == "quick" else [2, 3, 4]
    nys = [3, 5] if tier == "quick" else [3, 5, 7]
    # (a1) aero
    geo = list(itertools.product(pfs, nxs, nys, [5.0, -3.0], [0.0, 4.0], [False, True], [False, True]))
    if tier == "quick":
        # nx = 4 is the smallest mesh with an interior chordwise panel row
        geo += list(itertools.product(["twdi"], [4], [5], [5.0], [0.0, 4.0], [False, True], [False, True]))
    for pf, nx, ny, al, be, rot, two in geo:
        if pf == "camber" and nx < 3:
            continue
        st.append(dict(part="aero", pf=pf, nx=nx, ny=ny, alpha=al, beta=be, rot=rot, two=two, fam=fam))
        if nx == 3 and ny == 5 and pf in ("swept", "twdi"):
            # the compressible (Prandtl-Glauert) solution path, positive and negative sideslip in each member of the pair
            st.append(dict(part="aero", pf=pf, nx=nx, ny=ny, alpha=al, beta=be, rot=rot, two=two, comp=0.6, fam=fam))
    # production-size lattices / beams (index arithmetic beyond nx = 4, ny = 7)
    for (pf, nx, ny), be, rot, two in itertools.product([("twdi", 7, 17), ("camber", 5, 11)], [0.0, 4.0], [False, True], [False, True]):
        st.append(dict(part="aero", pf=pf, nx=nx, ny=ny, alpha=5.0, beta=be, rot=rot, two=two, fam=fam))
    st.append(dict(part="aero", pf="twdi", nx=6, ny=13, alpha=5.0, beta=4.0, rot=True, two=True, comp=0.6, fam=fam))
    for model, ny, pm in itertools.product(["tube", "wingbox"], [21, 41] if tier == "thorough" else [21], ["none", "both"]):
        st.append(dict(part="struct", model=model, pf="twdi", ny=ny, relief=True, pm=pm, fam=fam))
        st.append(dict(part="structlr", model=model, ny=(ny + 1) // 2, relief=True, pm=(pm == "both"), fam=fam))
    # (a1') symmetric aircraft, every choice of modelled half per surface: (L), (R), (L,L), (R,R), (L,R), (R,L), three surfaces
    # L/R/L and R/L/R - the handedness belongs to each surface, so all describe the same aircraft
    for pf, nx, ny, al, nsurf, comp in itertools.product(["swept", "twdi", "camber"], [2, 3], [3, 4], [5.0, -3.0], [1, 2, 3], [False, True]):
        if pf == "camber" and nx < 3:
            continue
        st.append(dict(part="aerolr", pf=pf, nx=nx, ny=ny, alpha=al, nsurf=nsurf, comp=comp, fam=fam))
    # (a2) struct alone
    for model, pf, ny, relief, pm in itertools.product(["tube", "wingbox"], ["swept", "twdi"], nys, [False, True], ["none", "left_inboard", "right_outboard", "both"]):
        st.append(dict(part="struct", model=model, pf=pf, ny=ny, relief=relief, pm=pm, fam=fam))
        if pm in ("none", "both"):
            st.append(dict(part="struct", model=model, pf=pf, ny=ny, relief=relief, pm=pm, uneq=True, fam=fam))
    for model, ny, relief, pm in itertools.product(["tube", "wingbox"], [2, 3, 4], [False, True], [False, True]):
        st.append(dict(part="structlr", model=model, ny=ny, relief=relief, pm=pm, fam=fam))
        # ... and of an UNSWEPT wing (elastic axis exactly along y: anything that tells inboard from outboard by x ties there), also forward-swept
        st.append(dict(part="structlr", model=model, ny=ny, relief=relief, pm=pm, pf="rect", fam=fam))
        if relief and not pm:
            st.append(dict(part="structlr", model=model, ny=ny, relief=relief, pm=pm, pf="fwd", fam=fam))
    # (a3) aerostruct, asymmetric
    for model, pf, ny, be, pmass in itertools.product(["tube", "wingbox"], ["swept", "twdi"], [5] if tier == "quick" else [5, 7], [0.0, 4.0], [False, True]):
        st.append(dict(part="as", model=model, pf=pf, ny=ny, beta=be, pmass=pmass, fam=fam))
        if not pmass and pf == "swept":
            # the same with a second (tail) surface in the flight point, listed after and before the wing
            st.append(dict(part="as", model=model, pf=pf, ny=ny, beta=be, pmass=pmass, two="wt", fam=fam))
            st.append(dict(part="as", model=model, pf=pf, ny=ny, beta=be, pmass=pmass, two="tw", fam=fam))
    # (b) mirror-symmetric full-span aerostructural models
    for model, pf, ny, relief in itertools.product(["tube", "wingbox"], ["swept", "twdi"] + (["camber"] if tier == "thorough" else []), [5] if tier == "quick" else [5, 7], [False, True]):
        st.append(dict(part="selfsym", model=model, pf=pf, ny=ny, relief=relief, fam=fam))
    # (c) geometry: left vs right half
    dvs = {
        "none": [None],
        "sweep": [0.0, 20.0, -10.0],
        "dihedral": [0.0, 7.0, -5.0],
        "taper": [1.0, 0.6, 1.3],
        "span": [8.0, 10.0, 6.0],
        "twist_cp": [[0.0, 0.0, 0.0], [1.0, 3.0, -2.0]],
        "chord_cp": [[1.0, 1.0, 1.0], [1.2, 0.9, 0.7]],
        "xshear_cp": [[0.0, 0.0, 0.0], [0.3, -0.1, 0.2]],
        "yshear_cp": [[0.0, 0.0, 0.0], [0.05, -0.02, 0.1]],
        "zshear_cp": [[0.0, 0.0, 0.0], [0.1, 0.3, -0.2]],
    }
    for pf, nx, ny in list(itertools.product(pfs, nxs, [3, 4] if tier == "quick" else [3, 4, 5])) + ([("twdi", 4, 3)] if tier == "quick" else []):
        if pf == "camber" and nx < 3:
            continue
        if pf == "crm":
            continue
        for dv, vals in dvs.items():
            for v in vals:
                st.append(dict(part="geom", pf=pf, nx=nx, ny=ny, dv=dv, val=v, fam=fam))
    # (c') geometry group on full-span ASYMMETRIC meshes with unequal semi-spans vs the reflected mesh and variables
    for pf, nx, ny in itertools.product(["swept", "twdi"], [2, 3], [5, 7] if tier == "quick" else [3, 5, 7]):
        for dv, vals in dvs.items():
            for v in vals:
                st.append(dict(part="geomfull", pf=pf, nx=nx, ny=ny, dv=dv, val=v, fam=fam))
    return st, inadm


def run_state(s):
    return globals()["part_" + s["part"]](s)


def _viol(viol, oracle, name, a, b, scale, tol, extra=None):
    a = np.asarray(a, float)
    b = np.asarray(b, float)
    sc = max(scale, 1e-300)
    e = np.abs(a - b).max() / sc
    if not e <= tol:
        sig = dict(oracle=oracle, observable=name)
        sig.update(extra or {})
        viol.append(dict(sig=sig, msg="%s is not the mirror image (rel %.2e): %s vs %s" % (name, e, np.array2string(a.ravel()[:4], precision=6), np.array2string(b.ravel()[:4], precision=6)), measure=float(e)))
        return 1
    return 0


def flipF(F):
    """reflect an (nx-1, ny-1, 3) polar-vector field"""
    return F[:, ::-1, :] * POLAR


def part_aero(s):
    fam = s["fam"]
    ms = [gen.make_mesh(s["pf"], s["nx"], s["ny"], "full", fam, asym=True)]
    if s["two"]:
        ms.append(gen.make_mesh("swept", 2, 3, "full", fam, asym=True, span=3.0, chord=0.8, offset=[5.0, 0.3, 0.7]))
    cg = np.array([0.5, 0.2, -0.1])
    om_ = np.array([0.1, -0.2, 0.3]) if s["rot"] else None

    def run(meshes, beta, cg_, om__):
        surfs = [builders.aero_surface("s%d" % k, m, False, with_viscous=True, CD0=0.01) for k, m in enumerate(meshes)]
        fl = dict(v=60.0, alpha=s["alpha"], beta=beta, rho=1.1, cg=list(cg_))
        if om__ is not None:
            fl["omega"] = list(om__)
        if s.get("comp"):
            fl["Mach_number"] = s["comp"]
        p = builders.build_aero(surfs, fl, rotational=om__ is not None, compressible=bool(s.get("comp")))
        p.run_model()
        return p

    p1 = run(ms, s["beta"], cg, om_)
    p2 = run([gen.mirror_mesh(m) for m in ms], -s["beta"], cg * POLAR, None if om_ is None else om_ * AXIAL)
    viol, val = [], 0
    wh = dict(part="aero", rot=s["rot"], nsurf=len(ms), comp=bool(s.get("comp")))
    Fsc = max(max(np.abs(p1["ap.aero_states.s%d_sec_forces" % k]).max() for k in range(len(ms))), gen.force_floor(1.1, 60.0, ms))
    for k in range(len(ms)):
        val += 1
        _viol(viol, "reflection", "sec_forces", p2["ap.aero_states.s%d_sec_forces" % k], flipF(p1["ap.aero_states.s%d_sec_forces" % k]), Fsc, TOL, wh)
        for q in ("CL", "CD", "CDv", "CDi"):
            val += 1
            _viol(viol, "reflection", q, p2["ap.s%d_perf.%s" % (k, q)], p1["ap.s%d_perf.%s" % (k, q)], max(abs(p1["ap.s%d_perf.%s" % (k, q)][0]), 1e-3), TOL, wh)
        val += 1
        val += 1
        cl1 = np.array(p1["ap.s%d_perf.Cl" % k])
        _viol(viol, "reflection", "sectional_Cl", p2["ap.s%d_perf.Cl" % k], cl1[::-1], max(np.abs(cl1).max(), 1e-3), TOL, wh)
        _viol(viol, "reflection", "mesh_point_forces", p2["ap.aero_states.s%d_mesh_point_forces" % k], p1["ap.aero_states.s%d_mesh_point_forces" % k][:, ::-1, :] * POLAR, Fsc, TOL, wh)
    for q in ("CL", "CD"):
        val += 1
        _viol(viol, "reflection", q + "_total", p2["ap." + q], p1["ap." + q], max(abs(p1["ap." + q][0]), 1e-3), TOL, wh)
    val += 1
    _viol(viol, "reflection", "CM", p2["ap.CM"], p1["ap.CM"] * AXIAL, max(np.abs(p1["ap.CM"]).max(), 1e-3), TOL, wh)
    asym = np.abs(flipF(p1["ap.aero_states.s0_sec_forces"]) - p1["ap.aero_states.s0_sec_forces"]).max() / Fsc
    return dict(viol=viol, nontrivial=bool(Fsc > 1e-9 and asym > 1e-6), digest=digest_arrays(p1["ap.aero_states.s0_sec_forces"]), transitions=2, validated=val)


def part_aerolr(s):
    """one mirror-symmetric aircraft (1-3 symmetric surfaces); every surface modelled by its left or by its right half, all
    2^n choices: coefficients equal, sectional forces of a right-half surface are the mirror image of the left-half ones"""
    fam, n = s["fam"], s["nsurf"]
    left = [gen.make_mesh(s["pf"], s["nx"], s["ny"], "left", fam)]
    if n >= 2:
        left.append(gen.make_mesh("swept", 2, 3, "left", fam, span=3.0, chord=0.8, offset=[5.0, 0.0, 0.7]))
    if n >= 3:
        left.append(gen.make_mesh("rect", 3, 2, "left", fam, span=2.0, chord=0.5, offset=[-3.0, 0.0, -0.4]))

    def run(hands):
        meshes = [m if h == "L" else gen.mirror_mesh(m) for m, h in zip(left, hands)]
        surfs = [builders.aero_surface("s%d" % k, m, True, with_viscous=True, CD0=0.01) for k, m in enumerate(meshes)]
        fl = dict(v=60.0, alpha=s["alpha"], beta=0.0, rho=1.1, cg=[0.5, 0.0, -0.1])
        if s["comp"]:
            fl["Mach_number"] = 0.6
        p = builders.build_aero(surfs, fl, compressible=s["comp"])
        p.run_model()
        return p

    ref = run("L" * n)
    viol, val = [], 0
    Fsc = max(max(np.abs(ref["ap.aero_states.s%d_sec_forces" % k]).max() for k in range(n)), gen.force_floor(1.1, 60.0, left))
    for hands in itertools.product("LR", repeat=n):
        if set(hands) == {"L"}:
            continue
        p = run(hands)
        wh = dict(part="aerolr", nsurf=n, comp=s["comp"], mixed=len(set(hands)) > 1)
        for k, h in enumerate(hands):
            F = p["ap.aero_states.s%d_sec_forces" % k]
            val += 1
            _viol(viol, "left_vs_right_half", "sec_forces", flipF(F) if h == "R" else F, ref["ap.aero_states.s%d_sec_forces" % k], Fsc, TOL, wh)
            for q in ("CL", "CD", "CDv", "CDi"):
                val += 1
                _viol(viol, "left_vs_right_half", q, p["ap.s%d_perf.%s" % (k, q)], ref["ap.s%d_perf.%s" % (k, q)], max(abs(ref["ap.s%d_perf.%s" % (k, q)][0]), 1e-3), TOL, wh)
        for q in ("CL", "CD", "CM"):
            val += 1
            _viol(viol, "left_vs_right_half", q + "_total", p["ap." + q], ref["ap." + q], max(np.abs(ref["ap." + q]).max(), 1e-3), TOL, wh)
    return dict(viol=viol, nontrivial=bool(Fsc > 1e-9), digest=digest_arrays(ref["ap.aero_states.s0_sec_forces"]), transitions=2**n, validated=val)


def flipD(d):
    """reflect a (ny, 6) displacement/load field: translations/forces polar, rotations/moments axial"""
    out = d[::-1].copy()
    out[:, :3] *= POLAR
    out[:, 3:] *= AXIAL
    return out


def part_structlr(s):
    """a left-half and a right-half symmetric STRUCTURAL model of the same wing (mirrored loads, reversed control points) agree.
    Planform without z-slope of the reference axis (the Geometry group's Rotate moves right-half meshes otherwise: known F7r)."""
    fam, ny = s["fam"], s["ny"]
    mL = gen.make_mesh("rect" if s.get("pf") in ("rect", "fwd") else "swept", 2, ny, "left", fam, span=10.0, chord=1.6)
    if s.get("pf") == "rect":
        mL[:, :, 0] = mL[:, -1:, 0]  # exactly untapered and unswept
    if s.get("pf") == "fwd":
        mL[:, :, 0] -= 0.3 * np.abs(mL[:, :, 1] - mL[0, -1, 1])  # forward sweep
    mR = gen.mirror_mesh(mL)
    loads = np.zeros((ny, 6))
    loads[:, :3] = gen.gen((ny, 3), 3, -2e3, 4e3, fam)
    loads[:, 3:] = gen.gen((ny, 3), 4, -5e2, 5e2, fam)

    def run(mesh, L, mirror):
        o = -1 if mirror else 1
        kw = dict(struct_weight_relief=s["relief"], exact_failure_constraint=True, t_over_c_cp=np.array([0.1, 0.14, 0.12])[::o])
        if s["model"] == "tube":
            kw["thickness_cp"] = np.array([0.012, 0.02, 0.03])[::o]
        else:
            kw.update(spar_thickness_cp=np.array([0.004, 0.006, 0.008])[::o], skin_thickness_cp=np.array([0.008, 0.012, 0.016])[::o])
        pm = None
        if s["pm"]:
            kw["n_point_masses"] = 1
            pm = dict(point_masses=[600.0], engine_thrusts=[5.0e3], point_mass_locations=[[1.1, 2.3 if mirror else -2.3, -0.35]])
        p = builders.build_struct(builders.struct_surface("wing", mesh, True, s["model"], **kw), L, load_factor=1.5, pm=pm)
        p.run_model()
        return p

    p1, p2 = run(mL, loads, False), run(mR, flipD(loads), True)
    viol, val = [], 5
    wh = dict(part="structlr", model=s["model"])
    d1 = p1["disp"]
    _viol(viol, "left_vs_right_half_structure", "disp", p2["disp"], flipD(d1), np.abs(d1).max(), TOL, wh)
    _viol(viol, "left_vs_right_half_structure", "vonmises", p2["vonmises"], p1["vonmises"][::-1], np.abs(p1["vonmises"]).max(), TOL, wh)
    _viol(viol, "left_vs_right_half_structure", "failure", p2["failure"], p1["failure"][::-1] if np.ndim(p1["failure"]) > 1 else p1["failure"], max(np.abs(p1["failure"]).max(), 1e-3), TOL, wh)
    _viol(viol, "left_vs_right_half_structure", "structural_mass", p2["structural_mass"], p1["structural_mass"], abs(p1["structural_mass"][0]), TOL, wh)
    _viol(viol, "left_vs_right_half_structure", "cg_location", p2["cg_location"], p1["cg_location"] * POLAR, np.abs(p1["cg_location"]).max(), TOL, wh)
    return dict(viol=viol, nontrivial=bool(np.abs(d1).max() > 1e-12), digest=digest_arrays(d1, p1["vonmises"]), transitions=2, validated=val)


def part_struct(s):
    fam = s["fam"]
    ny = s["ny"]
    m = gen.make_mesh(s["pf"], 2, ny, "full", fam, asym=True, span=10.0, chord=1.6)
    if s.get("uneq"):
        # unequal semi-spans (the right one 30 % longer) and control points that vary along the span (reversed for the mirror image)
        m[:, :, 1] = np.where(m[:, :, 1] > 0, 1.3 * m[:, :, 1], m[:, :, 1])
    loads = np.zeros((ny, 6))
    loads[:, :3] = gen.gen((ny, 3), 3, -2e3, 4e3, fam)
    loads[:, 3:] = gen.gen((ny, 3), 4, -5e2, 5e2, fam)

    # point masses / engines: inboard on the left, in the outermost bay on the right, or both
    ytip = 0.5 * 10.0
    locs = {"none": [], "left_inboard": [[1.1, -1.3, -0.35]], "right_outboard": [[0.9, 0.93 * ytip, -0.2]], "both": [[1.1, -1.3, -0.35], [0.9, 0.93 * ytip, -0.2]]}[s.get("pm", "none")]

    def run(mesh, L, mirror):
        kw = dict(struct_weight_relief=s["relief"], exact_failure_constraint=True)
        if s.get("uneq"):
            o = -1 if mirror else 1
            kw.update(twist_cp=np.array([1.0, 3.0, -2.0])[::o], t_over_c_cp=np.array([0.1, 0.14, 0.12])[::o])
            if s["model"] == "tube":
                kw["thickness_cp"] = np.array([0.012, 0.02, 0.03, 0.016])[::o]
            else:
                kw.update(spar_thickness_cp=np.array([0.004, 0.006, 0.008, 0.005])[::o], skin_thickness_cp=np.array([0.008, 0.012, 0.016, 0.01])[::o])
        pm = None
        if locs:
            kw["n_point_masses"] = len(locs)
            pl = [[x, -y if mirror else y, z] for x, y, z in locs]
            pm = dict(point_masses=[600.0, 450.0][: len(locs)], engine_thrusts=[5.0e3, 3.0e3][: len(locs)], point_mass_locations=pl)
        surf = builders.struct_surface("wing", mesh, False, s["model"], **kw)
        p = builders.build_struct(surf, L, load_factor=1.5, pm=pm)
        p.run_model()
        return p

    p1 = run(m, loads, False)
    p2 = run(gen.mirror_mesh(m), flipD(loads), True)
    viol, val = [], 0
    wh = dict(part="struct", model=s["model"])
    if locs:
        for nm in ("loads_from_point_masses", "loads_from_thrusts"):
            val += 1
            L1 = p1["struct_states." + nm]
            _viol(viol, "reflection", nm, p2["struct_states." + nm], flipD(L1), np.abs(L1).max(), TOL, wh)
    d1, d2 = p1["disp"], p2["disp"]
    val += 3
    _viol(viol, "reflection", "disp", d2, flipD(d1), np.abs(d1).max(), TOL, wh)
    _viol(viol, "reflection", "vonmises", p2["vonmises"], p1["vonmises"][::-1], np.abs(p1["vonmises"]).max(), TOL, wh)
    _viol(viol, "reflection", "structural_mass", p2["structural_mass"], p1["structural_mass"], abs(p1["structural_mass"][0]), TOL, wh)
    val += 1
    _viol(viol, "reflection", "cg_location", p2["cg_location"], p1["cg_location"] * POLAR, np.abs(p1["cg_location"]).max(), TOL, wh)
    return dict(viol=viol, nontrivial=bool(np.abs(d1).max() > 1e-12), digest=digest_arrays(d1, p1["vonmises"]), transitions=2, validated=val)


def _as_run(mesh, s, beta, pm, tail=None, tcp=(0.01, 0.012)):
    kw = dict(struct_weight_relief=True, with_viscous=True, exact_failure_constraint=True)
    if pm is not None:
        kw["n_point_masses"] = 1
    surf = builders.struct_surface("wing", mesh, False, s["model"], **kw)
    surfs = [surf]
    if tail is not None:
        surfs.append(builders.struct_surface("tail", tail, False, "tube", struct_weight_relief=True, with_viscous=True, thickness_cp=np.array(tcp)))
        if s["two"] == "tw":
            surfs.reverse()
    fl = dict(Mach_number=0.5, W0=2.0e3, v=100.0, rho=0.9, alpha=4.0, beta=beta, speed_of_sound=200.0, R=2.0e6, load_factor=1.3)
    p = builders.build_aerostruct(surfs, fl, pm=pm)
    builders.tighten(p)
    p.run_model()
    return p


def part_as(s):
    fam = s["fam"]
    m = gen.make_mesh(s["pf"], 2, s["ny"], "full", fam, asym=True, span=10.0, chord=1.6)
    pm = pm2 = None
    if s["pmass"]:
        loc = np.array([[1.1, -2.2, -0.35]])
        pm = dict(point_masses=[600.0], engine_thrusts=[5.0e3], point_mass_locations=loc.tolist())
        pm2 = dict(point_masses=[600.0], engine_thrusts=[5.0e3], point_mass_locations=(loc * POLAR).tolist())
    t1 = t2 = None
    if s.get("two"):
        t1 = gen.make_mesh("twdi", 2, 3, "full", fam, asym=True, span=4.0, chord=0.9, offset=[6.0, 0.0, 0.8])
        t2 = gen.mirror_mesh(t1)
    p1 = _as_run(m, s, s["beta"], pm, t1)
    # control points run along the span: the mirror image has them in reverse order
    p2 = _as_run(gen.mirror_mesh(m), s, -s["beta"], pm2, t2, tcp=(0.012, 0.01))
    A = "AS_point_0."
    viol, val = [], 0
    wh = dict(part="as", model=s["model"], nsurf=2 if s.get("two") else 1)
    F1 = p1[A + "coupled.aero_states.wing_sec_forces"]
    Fsc = np.abs(F1).max()
    checks = [
        ("sec_forces", p2[A + "coupled.aero_states.wing_sec_forces"], flipF(F1), Fsc),
        ("disp", p2[A + "coupled.wing.disp"], flipD(p1[A + "coupled.wing.disp"]), np.abs(p1[A + "coupled.wing.disp"]).max()),
        ("loads", p2[A + "coupled.wing_loads.loads"], flipD(p1[A + "coupled.wing_loads.loads"]), np.abs(p1[A + "coupled.wing_loads.loads"]).max()),
        ("vonmises", p2[A + "wing_perf.vonmises"], p1[A + "wing_perf.vonmises"][::-1], np.abs(p1[A + "wing_perf.vonmises"]).max()),
        ("CM", p2[A + "CM"], p1[A + "CM"] * AXIAL, max(np.abs(p1[A + "CM"]).max(), 1e-3)),
        ("cg", p2[A + "cg"], p1[A + "cg"] * POLAR, max(np.abs(p1[A + "cg"]).max(), 1e-3)),
    ]
    if s.get("two"):
        Ft = p1[A + "coupled.aero_states.tail_sec_forces"]
        checks.append(("tail sec_forces", p2[A + "coupled.aero_states.tail_sec_forces"], flipF(Ft), np.abs(Ft).max()))
        checks.append(("tail disp", p2[A + "coupled.tail.disp"], flipD(p1[A + "coupled.tail.disp"]), np.abs(p1[A + "coupled.tail.disp"]).max()))
    for q in ("CL", "CD", "fuelburn", "L_equals_W"):
        checks.append((q, p2[A + q], p1[A + q], max(abs(p1[A + q][0]), 1e-3)))
    for name, a, b, sc in checks:
        val += 1
        _viol(viol, "reflection", name, a, b, sc, TOLS, wh)
    asym = np.abs(flipF(F1) - F1).max() / Fsc
    return dict(viol=viol, nontrivial=bool(asym > 1e-6), digest=digest_arrays(F1, p1[A + "coupled.wing.disp"]), transitions=2, validated=val)


def part_selfsym(s):
    fam = s["fam"]
    m = gen.make_mesh(s["pf"], 3 if s["pf"] == "camber" else 2, s["ny"], "full", fam, asym=False, span=10.0, chord=1.6)
    surf = builders.struct_surface("wing", m, False, s["model"], struct_weight_relief=s["relief"], with_viscous=True, exact_failure_constraint=True)
    fl = dict(Mach_number=0.5, W0=2.0e3, v=100.0, rho=0.9, alpha=4.0, speed_of_sound=200.0, R=2.0e6, load_factor=1.3)
    p = builders.build_aerostruct([surf], fl)
    builders.tighten(p)
    p.run_model()
    A = "AS_point_0."
    viol, val = [], 0
    wh = dict(part="selfsym", model=s["model"])
    F = p[A + "coupled.aero_states.wing_sec_forces"]
    d = p[A + "coupled.wing.disp"]
    L = p[A + "coupled.wing_loads.loads"]
    vm = p[A + "wing_perf.vonmises"]
    for name, a, b, sc in [("sec_forces", F, flipF(F), np.abs(F).max()), ("disp", d, flipD(d), np.abs(d).max()), ("loads", L, flipD(L), np.abs(L).max()), ("vonmises", vm, vm[::-1], np.abs(vm).max())]:
        val += 1
        _viol(viol, "self_mirror", name, a, b, sc, TOLS, wh)
    return dict(viol=viol, nontrivial=bool(np.abs(d).max() > 1e-12), digest=digest_arrays(F, d, vm), transitions=1, validated=val)


def part_geom(s):
    import openmdao.api as om
    from openaerostruct.geometry.geometry_group import Geometry

    fam = s["fam"]
    left = gen.make_mesh(s["pf"], s["nx"], s["ny"], "left", fam)
    right = gen.make_mesh(s["pf"], s["nx"], s["ny"], "right", fam)
    dv, v = s["dv"], s["val"]

    def run(mesh, val):
        surf = builders.aero_surface("w", mesh, True)
        if dv != "none":
            surf[dv] = np.array(val, dtype=float) if isinstance(val, list) else val
        p = om.Problem(reports=False)
        p.model.add_subsystem("g", Geometry(surface=surf), promotes=["*"])
        p.setup()
        p.run_model()
        return p["mesh"].copy()

    vr = v[::-1] if isinstance(v, list) else v
    if dv == "yshear_cp":
        # a y-shear is a signed translation along y: the mirror image of +dy is -dy
        vr = [-x for x in vr]
    ml = run(left, v)
    mr = run(right, vr)
    viol = []
    is_default = dv == "none" or v in (0.0, 1.0, [0.0, 0.0, 0.0], [1.0, 1.0, 1.0]) or (dv == "span" and v == 8.0)
    want = gen.mirror_mesh(ml)
    # does the reference axis of the input mesh have a z-slope (dihedral)?  Then Rotate applies its dihedral-following
    # x-rotation, whose root detection assumes a left-half mesh; quantities that no rotation about the reference-axis
    # points can change (the axis itself, the chord lengths) are compared separately so that they stay guarded.
    ra = 0.75 * left[0] + 0.25 * left[-1]
    zslope = bool(np.abs(np.diff(ra[:, 2])).max() > 1e-12)
    wh = dict(part="geom", dv=dv, default=bool(is_default))
    sc = np.abs(ml).max()
    nval = 3
    _viol(viol, "left_vs_right_half", "ref_axis", 0.75 * mr[0] + 0.25 * mr[-1], 0.75 * want[0] + 0.25 * want[-1], sc, TOL, wh)
    ch = lambda m: np.linalg.norm(m[1:] - m[:-1], axis=2)  # noqa: E731
    _viol(viol, "left_vs_right_half", "chord_lengths", ch(mr), ch(want), sc, TOL, wh)
    _viol(viol, "left_vs_right_half", "Geometry.mesh", mr, want, sc, TOL, dict(wh, zslope=zslope))
    moved = np.abs(ml - left).max()
    return dict(viol=viol, nontrivial=bool(moved > 1e-9 or is_default), digest=digest_arrays(ml), transitions=2, validated=nval)


def part_geomfull(s):
    import openmdao.api as om
    from openaerostruct.geometry.geometry_group import Geometry

    fam = s["fam"]
    m = gen.make_mesh(s["pf"], s["nx"], s["ny"], "full", fam, asym=True)
    # unequal semi-spans: the right half is 40 % longer (centre node stays on y = 0)
    m[:, :, 1] = np.where(m[:, :, 1] > 0, 1.4 * m[:, :, 1], m[:, :, 1])
    dv, v = s["dv"], s["val"]
    n_cp = 3

    def run(mesh, val):
        surf = builders.aero_surface("w", mesh, False)
        if dv != "none":
            if dv == "span":
                val = val * 1.2  # the full-span mesh is 9.6 long: 9.6, 12, 7.2
            surf[dv] = np.array(val, dtype=float) if isinstance(val, list) else val
        p = om.Problem(reports=False)
        p.model.add_subsystem("g", Geometry(surface=surf), promotes=["*"])
        p.setup()
        p.run_model()
        return p["mesh"].copy()

    vr = v[::-1] if isinstance(v, list) else v
    if dv == "yshear_cp":
        vr = [-x for x in vr]
    out = run(m, v)
    out_m = run(gen.mirror_mesh(m), vr)
    viol = []
    wh = dict(part="geomfull", dv=dv)
    sc = np.abs(out).max()
    want = gen.mirror_mesh(out)
    ra = 0.75 * m[0] + 0.25 * m[-1]
    zslope = bool(np.abs(np.diff(ra[:, 2])).max() > 1e-12)
    _viol(viol, "reflection", "ref_axis", 0.75 * out_m[0] + 0.25 * out_m[-1], 0.75 * want[0] + 0.25 * want[-1], sc, TOL, wh)
    ch = lambda q: np.linalg.norm(q[1:] - q[:-1], axis=2)  # noqa: E731
    _viol(viol, "reflection", "chord_lengths", ch(out_m), ch(want), sc, TOL, wh)
    _viol(viol, "reflection", "Geometry.mesh", out_m, want, sc, TOL, dict(wh, zslope=zslope))
    return dict(viol=viol, nontrivial=bool(np.abs(out - m).max() > 1e-9 or dv == "none"), digest=digest_arrays(out), transitions=2, validated=3)
