"""C15 - stress recovery and failure aggregation are consistent and conservative."""
import itertools

import numpy as np
import openmdao.api as om

from oasmc import builders, gen
from oasmc.engine import digest_arrays
from oasmc.ref.ref_beam import local_axes

ID = "C15"
RULE = (
    "complete product beam geometry x ny x side x model x displacement-field family (each unit DOF, rigid translations, linearised rigid "
    "rotations about 3 axes, pure axial stretch / bending about both local axes / torsion of every element, generic) x scale; KS: complete "
    "product N elements x criteria x stress pattern x magnitude x yield x rho; non-trivial = distinct (configuration, field) with the "
    "expected stress non-zero (or a rigid/zero case); part aspoint: two-surface AerostructPoint (symmetry x model x equal/different lattice shapes x "
    "which entry differs: material, allowable, failure form, strength factor; odd surface first and last): each perf group's stresses and failure == the real "
    "stress / failure components built with that surface's own dictionary on its own converged state"
)
ASSUMPTIONS = ["finite alphabets; ny<=5 in the complete product, production-size beams of 16 / 21 / 41 nodes; KS rho in {10, 100, 1e3, 5e3}", "element local frame convention x' along element, y' = x' cross global x (as documented for the FEM)", "OpenMDAO/NumPy trusted"]
BOUND = {"quick": "ny in {2,3} exhaustively + beams of 16 / 21 / 41 nodes on two layouts", "thorough": "ny in {2,3,5}"}
E_, G_ = 70.0e9, 30.0e9


def states(tier, seed):
    fam = seed % 3
    st = []
    sides = [("left", 2), ("left", 3), ("full", 3)] + ([("full", 5), ("left", 5)] if tier == "thorough" else [])
    for lay, (side, ny), model in itertools.product(["rect", "swept", "twdi"], sides, ["tube", "wingbox"]):
        st.append(dict(part="stress", layout=lay, side=side, ny=ny, model=model, fam=fam))
        if lay == "swept":
            st.append(dict(part="stress", layout=lay, side=side, ny=ny, model=model, gscale=1.0e-3, fam=fam))
            # sub-millimetre elements (a centimetre-sized specimen): no absolute length may be built into the element frame
            st.append(dict(part="stress", layout=lay, side=side, ny=ny, model=model, gscale=1.0e-4, fam=fam))
    # production-size beams (element indexing of the stress recovery beyond ny = 5)
    for lay, (side, ny), model in itertools.product(["swept", "twdi"], [("left", 21), ("full", 41), ("left", 16)], ["tube", "wingbox"]):
        st.append(dict(part="stress", layout=lay, side=side, ny=ny, model=model, fam=fam))
    for N, model, pat, mag, yld, rho in itertools.product(range(1, 9), ["tube", "wingbox"], ["equal", "peak", "ladder", "zeros", "two_max"], [0.0, 1.0, 1e6, 1e9, 1e12], [1.0, 2e8], [10.0, 100.0, 1000.0, 5000.0]):  # rho: library default 100, coarse 10, sharp 1e3 / 5e3 (every exponent except the largest underflows on a safe structure)
        st.append(dict(part="ks", N=N, model=model, pattern=pat, mag=mag, yld=yld, rho=rho, fam=fam))
    # the distances that turn curvature into the extreme-fibre bending stresses of the wingbox (htop, hbottom): geometric depth of
    # the element's own (scaled, twisted) section, for airfoil data whose upper and lower surfaces are sampled at different stations
    for grid, tw, tc in itertools.product(["same", "lower_clustered", "upper_clustered"], [0.0, 0.15, -0.2], [0.12, 0.09]):
        st.append(dict(part="boxdepth", grid=grid, twist=tw, tc=tc, fam=fam))
    # exact failure: also with an upper-skin strength factor != 1 (wingbox) and other allowables; the same stresses go through the
    # KS aggregate, which must bracket the largest exact value
    for N, model, tssf, yf in itertools.product([1, 3, 5], ["tube", "wingbox"], [1.0, 0.8, 1.25, 0.5], [1.0, 0.37]):
        if model == "tube" and tssf != 1.0:
            continue
        st.append(dict(part="exact", N=N, model=model, tssf=tssf, yf=yf, fam=fam))
    # inside a two-surface AerostructPoint every surface's reported stresses and failure are those of the stress / failure components
    # built with THAT surface's dictionary (materials, allowable, strength factor, failure form), fed with its own converged state
    for sym, model, same, diff in itertools.product([True, False], ["tube", "wingbox"], [True, False], ["material", "yield", "exact", "tssf"]):
        if diff == "tssf" and model == "tube":
            continue
        st.append(dict(part="aspoint", sym=sym, model=model, same=same, diff=diff, fam=fam))
    return st, 0


def run_state(s):
    return globals()["part_" + s["part"]](s)


def part_aspoint(s):
    from openaerostruct.structures.failure_exact import FailureExact
    from openaerostruct.structures.failure_ks import FailureKS
    from openaerostruct.structures.vonmises_tube import VonMisesTube
    from openaerostruct.structures.vonmises_wingbox import VonMisesWingbox

    sym, fam, model = s["sym"], s["fam"], s["model"]
    side = "left" if sym else "full"
    ny = 3 if sym else 5
    mesh1 = gen.make_mesh("twdi", 2, ny, side, fam, asym=not sym, span=10.0, chord=1.6)
    mesh2 = gen.make_mesh("swept", 2, ny if s["same"] else (2 if sym else 3), side, fam, asym=not sym, span=6.0, chord=1.1, offset=[6.0, 0.0, 0.8])

    def surf(name, mesh, k):
        sf = builders.struct_surface(name, mesh, sym, model, with_viscous=True)
        if k and s["diff"] == "material":
            sf["E"], sf["G"] = sf["E"] * 2.9, sf["G"] * 2.6
        if k and s["diff"] == "yield":
            sf["yield"] = sf["yield"] * 0.37
        if k and s["diff"] == "exact":
            sf["exact_failure_constraint"] = True
        if k and s["diff"] == "tssf":
            sf["strength_factor_for_upper_skin"] = 1.4
        return sf

    # the surface that differs goes first and last in turn
    viol, val, dig = [], 0, []
    for order in ((0, 1), (1, 0)):
        surfs = [surf("wing", mesh1, order[0]), surf("tail", mesh2, order[1])]
        fl = dict(Mach_number=0.4, W0=2.0e3, v=90.0, rho=0.9, alpha=4.0, speed_of_sound=220.0, R=2.0e6, load_factor=1.0)
        try:
            p = builders.build_aerostruct(surfs, fl)
            builders.tighten(p, nl="default", lin="default")
            p.run_model()
        except om.AnalysisError:
            raise
        except Exception as exc:  # noqa: BLE001
            viol.append(dict(sig=dict(oracle="two_surface_aerostructural_sets_up", model=model), msg="two structural surfaces (%s, differing in %s) fail together: %s: %s" % (model, s["diff"], type(exc).__name__, str(exc)[:200]), measure=1.0))
            val += 1
            continue
        for sf in surfs:
            nm = sf["name"]
            q = om.Problem(reports=False)
            if model == "tube":
                q.model.add_subsystem("v", VonMisesTube(surface=sf), promotes=["*"])
                ins = {"radius": p[nm + ".radius"]}
            else:
                q.model.add_subsystem("v", VonMisesWingbox(surface=sf), promotes=["*"])
                ins = {k: p[nm + "." + k] for k in ("Qz", "J", "A_enc", "spar_thickness", "htop", "hbottom", "hfront", "hrear")}
            q.model.add_subsystem("f", (FailureExact if sf["exact_failure_constraint"] else FailureKS)(surface=sf), promotes=["*"])
            q.setup()
            q.set_val("nodes", p[nm + ".nodes"])
            q.set_val("disp", p["AS_point_0.coupled.%s.disp" % nm])
            for k, v in ins.items():
                q.set_val(k, v)
            q.run_model()
            for o in ("vonmises", "failure"):
                val += 1
                got = np.asarray(p["AS_point_0.%s_perf.%s" % (nm, o)], dtype=float)
                want = np.asarray(q[o], dtype=float)
                if got.shape != want.shape:
                    e = 1.0
                else:
                    e = np.abs(got - want).max() / max(np.abs(want).max(), 1e-300)
                if not e <= 1e-9:
                    viol.append(dict(sig=dict(oracle="group_reports_own_surface_stress", observable=o, model=model, diff=s["diff"]), msg="two-surface AerostructPoint (%s, surfaces differ in %s): %s_perf.%s differs by %.2e from the %s component built with this surface's own dictionary and fed with its own displacements" % (model, s["diff"], nm, o, e, o), measure=float(e)))
            dig.append(np.asarray(p["AS_point_0.%s_perf.vonmises" % nm]))
    return dict(viol=viol, nontrivial=True, digest=digest_arrays(*dig) if dig else "aspoint-fail", transitions=2, validated=val)


def vm_problem(s, nodes):
    ny = len(nodes)
    mesh = np.stack([nodes - [0.3, 0, 0], nodes + [0.7, 0, 0]])
    sym = s["side"] != "full"
    surf = builders.struct_surface("w", mesh, sym, s["model"])
    surf["E"], surf["G"] = E_, G_
    p = om.Problem(reports=False)
    sec = {}
    if s["model"] == "tube":
        from openaerostruct.structures.vonmises_tube import VonMisesTube

        p.model.add_subsystem("v", VonMisesTube(surface=surf), promotes=["*"])
        sec["radius"] = gen.gen((ny - 1,), 1, 0.08, 0.15, s["fam"])
    else:
        from openaerostruct.structures.vonmises_wingbox import VonMisesWingbox

        surf["strength_factor_for_upper_skin"] = 1.3
        p.model.add_subsystem("v", VonMisesWingbox(surface=surf), promotes=["*"])
        for k, (nm, lo, hi) in enumerate([("Qz", 1e-3, 3e-3), ("J", 2e-4, 5e-4), ("A_enc", 0.05, 0.1), ("spar_thickness", 4e-3, 8e-3), ("htop", 0.08, 0.12), ("hbottom", 0.07, 0.11), ("hfront", 0.2, 0.3), ("hrear", 0.15, 0.25)]):
            sec[nm] = gen.gen((ny - 1,), 10 + k, lo, hi, s["fam"])
    gs = s.get("gscale", 1.0)
    power = {"radius": 1, "Qz": 3, "J": 4, "A_enc": 2}
    for k in sec:
        sec[k] = sec[k] * gs ** power.get(k, 1)
    p.setup()
    p.set_val("nodes", nodes)
    for k, v in sec.items():
        p.set_val(k, v)
    return p, sec


def part_stress(s):
    ny = s["ny"]
    # gscale: the same beam at model scale (elements of millimetres): the closed forms have no length scale built in
    gs = s.get("gscale", 1.0)
    m = gen.make_mesh(s["layout"], 2, ny, s["side"], s["fam"], asym=(s["side"] == "full"), span=10.0, chord=1.0) * gs
    nodes = 0.65 * m[0] + 0.35 * m[-1]
    p, sec = vm_problem(s, nodes)
    tssf = 1.3
    viol, val, runs = [], 0, 0
    wh = dict(model=s["model"])

    def vm(d):
        nonlocal runs
        p.set_val("disp", d)
        p.run_model()
        runs += 1
        return p["vonmises"].copy()

    def bad(oracle, msg, e, **kw):
        viol.append(dict(sig=dict(oracle=oracle, **wh, **kw), msg=msg, measure=float(e)))

    span = np.abs(nodes[-1] - nodes[0]).max()
    # reference stress level: E * (strain of a 1e-3 relative stretch)
    generic = np.concatenate([gs * gen.gen((ny, 3), 1, -2e-2, 3e-2, s["fam"]), gen.gen((ny, 3), 2, -1e-2, 1e-2, s["fam"])], axis=1)
    v0 = vm(generic)
    sref = np.abs(v0).max()
    val += 1
    if not (np.all(v0 >= 0) and np.all(np.isfinite(v0)) and sref > 0):
        bad("nonnegative", "von Mises stresses of a generic field are not all finite and >= 0", 1.0)
    # every unit DOF: non-negative, finite
    for k in range(6 * ny):
        d = np.zeros(6 * ny)
        d[k] = 1e-2
        v = vm(d.reshape(ny, 6))
        val += 1
        if not (np.all(v >= 0) and np.all(np.isfinite(v))):
            bad("nonnegative", "negative or non-finite stress for unit DOF %d" % k, 1.0)
    # homogeneity
    # scale ladder: six decades down and up to stresses of order 1e12 Pa (the property's magnitude range): linearity has no ceiling
    for sc_ in (-1.0, 3.0, 1e-3, 1e-6, 30.0, 1e3, 3e4, -1e5):
        val += 1
        v = vm(sc_ * generic)
        ref_ = v0
        if sc_ < 0 and s["model"] == "tube":
            # the tube reports the two extreme fibres (axial+bending, -axial+bending): reversing the sign of the
            # displacement field exchanges their roles, the pair per element is what must be preserved
            v, ref_ = np.sort(v, axis=1), np.sort(v0, axis=1)
        e = np.abs(v - abs(sc_) * ref_).max() / (abs(sc_) * sref)
        if not e <= 1e-9:
            bad("homogeneity", "vm(%g d) != %g vm(d): %.2e" % (sc_, abs(sc_), e), e)
    # rigid body motion
    for k in range(3):
        d = np.zeros((ny, 6))
        d[:, k] = 0.37
        val += 1
        e = np.abs(vm(d)).max()
        # stress level of a comparable non-rigid motion: E * 0.37 / span
        if not e <= 1e-9 * E_ * 0.37 / span:
            bad("rigid_translation", "translation along axis %d produces stress %.3e Pa" % (k, e), e)
    pivot = np.array([0.4, -0.7, 0.2]) * gs
    for k in range(3):
        th = 1e-3
        w = np.zeros(3)
        w[k] = th
        d = np.zeros((ny, 6))
        d[:, :3] = np.cross(w, nodes - pivot)
        d[:, 3:] = w
        val += 1
        e = np.abs(vm(d)).max()
        if not e <= 1e-9 * E_ * th:
            bad("rigid_rotation", "linearised rigid rotation about axis %d produces stress %.3e Pa (E*theta = %.3e)" % (k, e, E_ * th), e)
    # closed forms, element by element
    for e_ in range(ny - 1):
        L, R = local_axes(nodes[e_], nodes[e_ + 1])
        xl, yl, zl = R

        def field(u1=None, r1=None):
            d = np.zeros((ny, 6))
            if u1 is not None:
                d[e_ + 1, :3] = u1
            if r1 is not None:
                d[e_ + 1, 3:] = r1
            return d

        if s["model"] == "tube":
            r = sec["radius"][e_]
            dl = 1e-3 * L
            cases = [
                ("axial", field(u1=dl * xl), [E_ * dl / L, E_ * dl / L]),
                ("bending_y", field(r1=2e-3 * yl), [E_ * r * 2e-3 / L] * 2),
                ("bending_z", field(r1=2e-3 * zl), [E_ * r * 2e-3 / L] * 2),
                ("torsion", field(r1=2e-3 * xl), [np.sqrt(3) * G_ * r * 2e-3 / L] * 2),
            ]
        else:
            dl = 1e-3 * L
            kap = 1e-3  # curvature
            ht, hb, hf, hr = sec["htop"][e_], sec["hbottom"][e_], sec["hfront"][e_], sec["hrear"][e_]
            tau = G_ * sec["J"][e_] / L * 2e-3 / 2 / sec["spar_thickness"][e_] / sec["A_enc"][e_]
            # constant curvature about local z: v = kap x^2/2 in local y, rotation kap x about local z
            bz = field(u1=kap * L**2 / 2 * yl, r1=kap * L * zl)
            # constant curvature about local y: deflection in local z is -kap x^2/2 for a positive rotation about y
            by = field(u1=-kap * L**2 / 2 * zl, r1=kap * L * yl)
            cases = [
                ("axial", field(u1=dl * xl), [E_ * dl / L / tssf, E_ * dl / L, E_ * dl / L, E_ * dl / L / tssf]),
                ("torsion", field(r1=2e-3 * xl), [np.sqrt(3) * tau / tssf, np.sqrt(3) * tau, np.sqrt(3) * tau, np.sqrt(3) * tau / tssf]),
                ("bending_z", bz, [E_ * kap * ht / tssf, E_ * kap * hb, 0.0, 0.0]),
                ("bending_y", by, [E_ * kap * hr / tssf, E_ * kap * hf, E_ * kap * hf, E_ * kap * hr / tssf]),
            ]
        for name, d, want in cases:
            val += 1
            got = vm(d)[e_]
            want = np.array(want)
            e = np.abs(got - want).max() / max(np.abs(want).max(), 1e-300)
            if not e <= 1e-9:
                bad("closed_form", "%s of element %d: %s vs closed form %s" % (name, e_, np.array2string(got, precision=6), np.array2string(want, precision=6)), e, case=name)
    return dict(viol=viol, nontrivial=bool(sref > 0), digest=digest_arrays(v0), transitions=runs, validated=val)


def pattern(s):
    ncrit = 2 if s["model"] == "tube" else 4
    n = s["N"] * ncrit
    mag = s["mag"]
    if s["pattern"] == "equal":
        v = np.full(n, mag)
    elif s["pattern"] == "peak":
        v = np.full(n, 0.1 * mag)
        v[n // 2] = mag
    elif s["pattern"] == "ladder":
        v = mag * 0.5 ** np.arange(n)
    elif s["pattern"] == "zeros":
        v = np.zeros(n)
    else:
        v = np.full(n, 0.3 * mag)
        v[0] = v[-1] = mag
    return v.reshape(s["N"], ncrit)


def part_ks(s):
    from openaerostruct.structures.failure_ks import FailureKS

    ny = s["N"] + 1
    mesh = gen.rect_full(2, ny)
    surf = builders.struct_surface("w", mesh, False, s["model"])
    surf["yield"] = s["yld"]
    p = om.Problem(reports=False)
    p.model.add_subsystem("k", FailureKS(surface=surf, rho=s["rho"]), promotes=["*"])
    p.setup()
    v = pattern(s)
    p.set_val("vonmises", v)
    p.run_model()
    f = p["failure"][0]
    fi = v / s["yld"] - 1
    viol = []
    n = v.size
    tol = 1e-12 * max(abs(fi).max(), 1.0)
    if not np.isfinite(f):
        viol.append(dict(sig=dict(oracle="ks_finite"), msg="KS failure is not finite for magnitude %g" % s["mag"], measure=1.0))
    else:
        if not f >= fi.max() - tol:
            viol.append(dict(sig=dict(oracle="ks_lower_bound"), msg="KS %.15g below the largest element value %.15g" % (f, fi.max()), measure=float(fi.max() - f)))
        if not f <= fi.max() + np.log(n) / s["rho"] + tol:
            viol.append(dict(sig=dict(oracle="ks_upper_bound"), msg="KS %.15g exceeds max + ln(N)/rho = %.15g" % (f, fi.max() + np.log(n) / s["rho"]), measure=float(f - fi.max())))
    return dict(viol=viol, nontrivial=True, digest=digest_arrays(np.array([f])), transitions=1, validated=3)


def part_boxdepth(s):
    from openaerostruct.structures.section_properties_wingbox import SectionPropertiesWingbox

    n = 4
    m = gen.rect_full(2, n + 1)
    surf = builders.struct_surface("w", m, False, "wingbox")
    npt = len(surf["data_x_upper"])
    x0, x1 = surf["data_x_upper"][0], surf["data_x_upper"][-1]
    t = np.linspace(0.0, 1.0, npt)
    fu = lambda x: 0.06 * np.sqrt(1 - ((x - 0.38) / 0.62) ** 2) - 0.005  # noqa: E731
    fl = lambda x: -0.05 * np.sqrt(1 - ((x - 0.35) / 0.65) ** 2) + 0.004  # noqa: E731
    xu = x0 + (x1 - x0) * (t**3 if s["grid"] == "upper_clustered" else t)
    xl = x0 + (x1 - x0) * (t**4 if s["grid"] == "lower_clustered" else t)
    surf.update(data_x_upper=xu, data_y_upper=fu(xu), data_x_lower=xl, data_y_lower=fl(xl))
    chord = gen.gen((n,), 1, 1.0, 2.0, s["fam"])
    sch = chord * gen.gen((n,), 2, 1.0, 1.15, s["fam"])
    tc = np.full(n, s["tc"])
    th = np.full(n, s["twist"]) * gen.gen((n,), 3, 0.7, 1.3, s["fam"])

    def props(sf, twist):
        q = om.Problem(reports=False)
        q.model.add_subsystem("c", SectionPropertiesWingbox(surface=sf), promotes=["*"])
        q.setup()
        for k, v in (("fem_chords", chord), ("streamwise_chords", sch), ("fem_twists", twist), ("spar_thickness", np.full(n, 0.006)), ("skin_thickness", np.full(n, 0.01)), ("t_over_c", tc)):
            q.set_val(k, v)
        q.run_model()
        return {k: np.array(q[k], dtype=float).copy() for k in ("A", "Iz", "J", "A_enc", "A_int", "htop", "hbottom", "Qz")}

    P = props(surf, th)
    got = P["htop"] + P["hbottom"]
    viol = []
    # the section turned upside down (upper and lower surface exchanged and negated, twist negated) is the mirror image of the
    # section: same area, bending inertia, torsion constant, enclosed areas and first moment; htop and hbottom exchanged
    flip = dict(surf)
    flip.update(data_x_upper=xl, data_y_upper=-fl(xl), data_x_lower=xu, data_y_lower=-fu(xu))
    Q = props(flip, -th)
    for a, b in (("A", "A"), ("Iz", "Iz"), ("J", "J"), ("A_enc", "A_enc"), ("A_int", "A_int"), ("Qz", "Qz"), ("htop", "hbottom"), ("hbottom", "htop")):
        e = np.abs(P[a] - Q[b]).max() / max(np.abs(P[a]).max(), 1e-300)
        if not e <= 1e-11:
            viol.append(dict(sig=dict(oracle="wingbox_section_flip_symmetry", quantity=a, grid=s["grid"], twisted=bool(s["twist"] != 0)), msg="%s of the section differs from %s of its upside-down mirror image by %.2e" % (a, b, e), measure=float(e)))
    fy = tc / surf["original_wingbox_airfoil_t_over_c"] * sch / chord
    for e in range(n):
        c_, s_ = np.cos(th[e]), np.sin(th[e])
        yu = -s_ * xu * chord[e] + c_ * fu(xu) * chord[e] * fy[e]
        yl = -s_ * xl * chord[e] + c_ * fl(xl) * chord[e] * fy[e]
        depth = yu.max() - yl.min()
        if not (depth - 1e-12 <= got[e] <= depth + 2 * np.log(npt) / 500.0 + 1e-12):
            viol.append(dict(sig=dict(oracle="wingbox_fibre_distances", grid=s["grid"], twisted=bool(s["twist"] != 0)), msg="element %d: htop + hbottom = %.6f, geometric depth of the rotated section %.6f (allowance of the smooth maximum %.4f)" % (e, got[e], depth, 2 * np.log(npt) / 500.0), measure=float(abs(got[e] - depth))))
    return dict(viol=viol, nontrivial=True, digest=digest_arrays(got), transitions=2, validated=n + 8)


def part_exact(s):
    from openaerostruct.structures.failure_exact import FailureExact
    from openaerostruct.structures.non_intersecting_thickness import NonIntersectingThickness

    ny = s["N"] + 1
    mesh = gen.rect_full(2, ny)
    from openaerostruct.structures.failure_ks import FailureKS

    surf = builders.struct_surface("w", mesh, False, s["model"])
    surf["yield"] = surf["yield"] * s.get("yf", 1.0)
    if s["model"] == "wingbox":
        surf["strength_factor_for_upper_skin"] = s.get("tssf", 1.0)
    ncrit = 2 if s["model"] == "tube" else 4
    p = om.Problem(reports=False)
    p.model.add_subsystem("k", FailureExact(surface=surf), promotes=["*"])
    p.model.add_subsystem("ks", FailureKS(surface=surf, rho=100.0), promotes_inputs=["*"])
    p.setup()
    v = gen.gen((s["N"], ncrit), 3, 0.0, 5e8, s["fam"])
    p.set_val("vonmises", v)
    p.run_model()
    f = p["failure"]
    viol = []
    # the stresses handed to the failure components are the (already strength-factor-weighted) von Mises values: allowable = yield
    want = v / surf["yield"] - 1
    e = np.abs(np.asarray(f).reshape(want.shape) - want).max()
    if not e <= 1e-13 * max(np.abs(want).max(), 1.0):
        viol.append(dict(sig=dict(oracle="failure_exact", model=s["model"]), msg="exact failure is not vonmises/yield - 1 (max diff %.2e, upper-skin factor %s)" % (e, s.get("tssf", 1.0)), measure=1.0))
    ks = float(p["ks.failure"][0])
    fmax = float(np.max(f))
    if not (fmax - 1e-12 * max(abs(fmax), 1.0) <= ks <= fmax + np.log(v.size) / 100.0 + 1e-12 * max(abs(fmax), 1.0)):
        viol.append(dict(sig=dict(oracle="ks_brackets_exact", model=s["model"]), msg="KS aggregate %.6g of the same stresses is outside [max exact, max exact + ln(N)/rho] = [%.6g, %.6g] (upper-skin factor %s)" % (ks, fmax, fmax + np.log(v.size) / 100.0, s.get("tssf", 1.0)), measure=1.0))
    val = 2
    if s["model"] == "tube":
        q = om.Problem(reports=False)
        q.model.add_subsystem("t", NonIntersectingThickness(surface=surf), promotes=["*"])
        q.setup()
        th = gen.gen((s["N"],), 1, 0.01, 0.3, s["fam"])
        ra = gen.gen((s["N"],), 2, 0.05, 0.2, s["fam"])
        q.set_val("thickness", th)
        q.set_val("radius", ra)
        q.run_model()
        val += 1
        if not np.array_equal(q["thickness_intersects"], th - ra):
            viol.append(dict(sig=dict(oracle="thickness_intersects"), msg="thickness_intersects is not thickness - radius", measure=1.0))
    return dict(viol=viol, nontrivial=True, digest=digest_arrays(f), transitions=2, validated=val)
