"""C04 - a half-span symmetric model is equivalent to the full-span model."""
import itertools

import numpy as np
import openmdao.api as om

from oasmc import builders, gen
from oasmc.checks.c05 import full_of
from oasmc.checks.c08 import reflect
from oasmc.engine import digest_arrays

ID = "C04"
RULE = (
    "complete product of surface set x planform x nx x ny_half x alpha x drag options x Mach x compressible x ground effect x area type "
    "(part aero) and structure model x load options (part as); each state builds the symmetric half model and the harness-mirrored "
    "full-span model with the real code and compares every listed output; part as2: wing + tail in one AerostructPoint modelled half/half, half/full, "
    "full/half against full/full (two size pairs so that mixed models have equal modelled lattice shapes) x structure model x weight relief; non-trivial = forces non-zero"
)
ASSUMPTIONS = [
    "finite alphabets (alpha, Mach, planforms); nx<=4, half ny<=4, <=3 surfaces",
    "spanwise distributions are carried by the mesh, control points are constant (a B-spline maps equal control points differently onto half and full spans)",
    "point masses are placed at the spanwise station of a structural node (the inverse-distance spreading of OAS otherwise leaks a 1e-7 share across the symmetry plane)",
    "coupled solvers tightened to rtol 1e-13 (user-level setting); OpenMDAO/NumPy/SciPy trusted",
]
BOUND = {"quick": "nx<=3 (+ one planform with nx=4), half ny in {3} (+ production-size lattices 7x11, 5x9 wing+tail, 6x8 off-plane, left and right halves), aerostruct: tube+wingbox x 4 load options", "thorough": "nx<=4, half ny in {3,4}, all load-option combinations"}
TOL_A = 1e-9
TOL_S = 1e-7


def states(tier, seed):
    fam = seed % 3
    st, inadm = [], 0
    pfs = ["swept", "twdi", "camber"] + (["rect", "crm"] if tier == "thorough" else [])
    nxs = [2, 3] if tier == "quick" else [2, 3, 4]
    nys = [3] if tier == "quick" else [3, 4]
    sets = ["wing", "wing_tail", "wing_offplane"]
    geo = list(itertools.product(sets, pfs, nxs, nys, [5.0, -2.0]))
    if tier == "quick":
        # nx = 4 is the smallest mesh with an interior chordwise panel row: one planform per surface set stays in the quick tier
        geo += [(sset, "twdi", 4, 3, al) for sset in sets for al in (5.0, -2.0)]
    for sset, pf, nx, ny, al in geo:
        if pf == "camber" and nx < 3:
            continue
        for visc, wave, M, comp, ground, sref in itertools.product([False, True], [False, True], [0.5, 0.84], [False, True], [False, True], ["wetted", "projected"]):
            if wave and not visc and tier == "quick":
                inadm += 0
            if ground and (comp or sset == "wing_offplane"):
                # compressible + ground effect leaves height_agl unconnected in OAS (outside the statement);
                # an off-plane surface has no explicit-image full-span equivalent in the builder
                inadm += 1
                continue
            if tier == "quick":
                # quick tier: pairwise-reduced option product (every pair of option values occurs), full product in thorough
                key = (int(visc) + int(wave) + int(M > 0.6) + int(comp) + int(ground) + int(sref == "projected")) % 2
                if key != (nx + int(al > 0)) % 2:
                    continue
            st.append(dict(part="aero", sset=sset, pf=pf, nx=nx, ny=ny, alpha=al, visc=visc, wave=wave, M=M, comp=comp, ground=ground, sref=sref, fam=fam))
            if sset != "wing_offplane" and (nx == 3 or tier == "thorough") and pf == "twdi":
                # the same aircraft described by its RIGHT half (root node first)
                st.append(dict(part="aero", side="right", sset=sset, pf=pf, nx=nx, ny=ny, alpha=al, visc=visc, wave=wave, M=M, comp=comp, ground=ground, sref=sref, fam=fam))
    # production-size lattices (index arithmetic of the symmetric-image folding beyond nx = 4, half ny = 4)
    for (sset, pf, nx, ny), (visc, wave, M, comp, ground, sref) in itertools.product(
        [("wing", "twdi", 7, 11), ("wing_tail", "twdi", 5, 9), ("wing_offplane", "camber", 6, 8)],
        [(True, True, 0.84, True, False, "wetted"), (True, False, 0.5, False, True, "projected"), (False, False, 0.5, False, False, "wetted")],
    ):
        if ground and sset == "wing_offplane":
            continue
        for side in [None, "right"] if sset != "wing_offplane" else [None]:
            d = dict(part="aero", sset=sset, pf=pf, nx=nx, ny=ny, alpha=5.0, visc=visc, wave=wave, M=M, comp=comp, ground=ground, sref=sref, fam=fam)
            if side:
                d["side"] = side
            st.append(d)
    # aerostructural
    opts = list(itertools.product([False, True], repeat=3))  # relief, fuel, point masses
    if tier == "quick":
        opts = [(False, False, False), (True, False, False), (False, True, True), (True, True, True)]
    for model, pf, ny, (relief, fuel, pmass), visc in itertools.product(["tube", "wingbox"], ["swept", "twdi"] if tier == "quick" else ["swept", "twdi", "camber"], [3] if tier == "quick" else [3, 4], opts, [True] if tier == "quick" else [False, True]):
        nx = 3 if pf == "camber" else 2
        if fuel and model == "tube":
            inadm += 1  # distributed fuel needs the wingbox fuel volumes
            continue
        st.append(dict(part="as", model=model, pf=pf, nx=nx, ny=ny, relief=relief, fuel=fuel, pmass=pmass, visc=visc, wave=False, fam=fam))
        if pf == "swept":
            # right halves only on planforms whose reference axis has no z-slope: with one, the Geometry group's Rotate component
            # moves right-half meshes (known finding F7r of C07), which would mask everything else here
            st.append(dict(part="as", side="right", model=model, pf=pf, nx=3, ny=ny, relief=relief, fuel=fuel, pmass=pmass, visc=visc, wave=False, fam=fam))
    if tier == "thorough":
        for model in ["tube", "wingbox"]:
            st.append(dict(part="as", model=model, pf="swept", nx=2, ny=3, relief=True, fuel=False, pmass=False, visc=True, wave=True, fam=fam))
    # wing + tail in one AerostructPoint, every combination of half / full modelling of the two surfaces against both full; sizes chosen
    # so that in a mixed combination the two modelled lattices have the same shape
    for model, sizes, pat, relief in itertools.product(["tube", "wingbox"], [(3, 2), (2, 3)], ["hh", "hf", "fh"], [False, True]):
        st.append(dict(part="as2", model=model, sizes=sizes, pat=pat, relief=relief, fam=fam))
    # the Geometry group's scalar planform variables on the (left) half mesh and on the full mesh: the half is the left half of the full
    # (right halves are covered - with their known findings - by C07's left-vs-right part; control-point variables are excluded: a
    # B-spline maps equal control points differently onto half and full spans)
    for pf, nx, ny, (dv, vals) in itertools.product(["swept", "twdi"], [2, 3], [3, 4], dict(sweep=[20.0, -10.0], dihedral=[7.0, -5.0], taper=[0.6, 1.3], span=[10.0, 6.0]).items()):
        for v in vals:
            st.append(dict(part="geom", pf=pf, nx=nx, ny=ny, dv=dv, val=v, fam=fam))
    return st, inadm


def surf_meshes(s):
    fam = s["fam"]
    side = s.get("side", "left")
    wing = gen.make_mesh(s["pf"], s["nx"], s["ny"], side, fam)
    out = [("wing", wing)]
    if s["sset"] == "wing_tail":
        out.append(("tail", gen.make_mesh("rect", 2, 2, side, fam, span=3.0, chord=0.8, offset=[5.0, 0.0, 0.7])))
    if s["sset"] == "wing_offplane":
        # a symmetric surface that does not touch y=0: spans y in [-3, -1.5]
        fin = gen.make_mesh("swept", 2, 3, "left", fam, span=3.0, chord=0.7, offset=[4.5, -1.5, 0.6])
        out.append(("fin", fin))
    return out


def run_state(s):
    return globals()["part_" + s["part"]](s)


def part_geom(s):
    from openaerostruct.geometry.geometry_group import Geometry

    half = gen.make_mesh(s["pf"], s["nx"], s["ny"], "left", s["fam"])
    full = full_of(half, "left")

    def run(mesh, sym):
        surf = builders.aero_surface("w", mesh, sym)
        surf[s["dv"]] = s["val"]
        p = om.Problem(reports=False)
        p.model.add_subsystem("g", Geometry(surface=surf), promotes=["*"])
        p.setup()
        p.run_model()
        return np.array(p["mesh"], dtype=float)

    mh, mf = run(half, True), run(full, False)
    ny = half.shape[1]
    viol = []
    e = np.abs(mh - mf[:, :ny]).max() / np.abs(mf).max()
    if not e <= 1e-12:
        viol.append(dict(sig=dict(oracle="half_vs_full", observable="Geometry.mesh", dv=s["dv"]), msg="Geometry with %s = %g: the half-model mesh differs from the left half of the full-span mesh by %.2e (rel.)" % (s["dv"], s["val"], e), measure=float(e)))
    e2 = np.abs(mf - gen.mirror_mesh(mf)).max() / np.abs(mf).max()
    if not e2 <= 1e-12:
        viol.append(dict(sig=dict(oracle="full_span_result_mirror_symmetric", observable="Geometry.mesh", dv=s["dv"]), msg="Geometry with %s = %g on a mirror-symmetric full-span mesh gives a mesh that is not mirror-symmetric (%.2e)" % (s["dv"], s["val"], e2), measure=float(e2)))
    return dict(viol=viol, nontrivial=bool(np.abs(mh - half).max() > 1e-9), digest=digest_arrays(mh), transitions=2, validated=2)


def part_as2(s):
    fam = s["fam"]
    halves = [gen.make_mesh("swept", 2, s["sizes"][0], "left", fam, span=10.0, chord=1.6), gen.make_mesh("rect", 2, s["sizes"][1], "left", fam, span=4.0, chord=0.9, offset=[6.0, 0.0, 0.8])]

    def run(pat):
        surfs = []
        for k, (name, half) in enumerate(zip(("wing", "tail"), halves)):
            sym = pat[k] == "h"
            sf = builders.struct_surface(name, half if sym else full_of(half, "left"), sym, s["model"], struct_weight_relief=s["relief"], with_viscous=True, CD0=0.01 * (k + 1), CL0=0.03 * k)
            sf["yield"] = sf["yield"] * (1.0 - 0.4 * k)
            surfs.append(sf)
        fl = dict(Mach_number=0.5, W0=2.0e3, v=100.0, rho=0.9, alpha=4.0, speed_of_sound=200.0, R=2.0e6, load_factor=1.3)
        p = builders.build_aerostruct(surfs, fl)
        builders.tighten(p)
        p.run_model()
        A = "AS_point_0."
        out = {q: np.array(p[A + q], dtype=float) for q in ("CL", "CD", "CM", "fuelburn", "L_equals_W", "cg")}
        for n in ("wing", "tail"):
            for q in ("CL", "CD", "CDv", "L", "D"):  # not the KS failure aggregate: it is taken over the modelled elements, N or 2N of them
                out["%s_perf.%s" % (n, q)] = np.array(p[A + "%s_perf.%s" % (n, q)], dtype=float)
            out[n + ".S_ref"] = np.array(p[A + "coupled.%s.S_ref" % n], dtype=float)
            out[n + ".structural_mass"] = np.array(p[n + ".structural_mass"], dtype=float)
        return out

    try:
        ref = run("ff")
        got = run(s["pat"])
    except om.AnalysisError:
        raise
    except Exception as exc:  # noqa: BLE001
        # each of these surfaces is analysed alone (half and full) by part "as": together they must at least set up
        return dict(viol=[dict(sig=dict(oracle="half_vs_full", observable="sets_up", nsurf=2), msg="wing+tail AerostructPoint (modelling 'ff' then '%s') fails to set up / run: %s: %s" % (s["pat"], type(exc).__name__, str(exc)[:200]), measure=1.0)], nontrivial=True, digest="as2-fail", transitions=2, validated=1)
    viol, val = [], 0
    for k, b in ref.items():
        val += 1
        a = got[k]
        sc = max(np.abs(b).max(), 1e-3 if k in ("CM", "cg") else 1e-6)
        e = np.abs(a - b).max() / sc
        if not e <= TOL_S:
            viol.append(dict(sig=dict(oracle="half_vs_full", observable=k, nsurf=2, model=s["model"]), msg="wing+tail AerostructPoint, modelling '%s' vs both full: %s = %s vs %s (rel %.2e)" % (s["pat"], k, np.array2string(a.ravel()[:3], precision=8), np.array2string(b.ravel()[:3], precision=8), e), measure=float(e)))
    return dict(viol=viol, nontrivial=bool(abs(ref["CL"][0]) > 1e-6), digest=digest_arrays(ref["CL"], ref["CD"], ref["CM"]), transitions=2, validated=val)


def _aero_model(named, syms, s, extra_images=None, h=None):
    surfs = []
    for (n, m), sy in zip(named, syms):
        kw = dict(with_viscous=s["visc"], with_wave=s["wave"], S_ref_type=s["sref"], CD0=0.01, CL0=0.05, t_over_c_cp=np.array([0.12]))
        if s["ground"] and sy:
            kw["groundplane"] = True
        surfs.append(builders.aero_surface(n, m, sy, **kw))
    fl = dict(v=200.0, alpha=s["alpha"], beta=0.0, rho=0.5, re=2.0e6, Mach_number=s["M"], cg=[0.6, 0.0, 0.1])
    if s["ground"] and any(syms):
        fl["height_agl"] = h
    p = builders.build_aero(surfs, fl, compressible=s["comp"])
    p.run_model()
    return p


def part_aero(s):
    named = surf_meshes(s)
    side = s.get("side", "left")
    half_of = (lambda a, n: a[:, :n]) if side == "left" else (lambda a, n: a[:, -n:])  # modelled half of a full-span panel array
    h = 6.0
    ph = _aero_model(named, [True] * len(named), s, h=h)
    # full-span equivalent built by the harness
    fullnamed = []
    for n, m in named:
        if n == "fin":
            fullnamed.append(("fin", m))
            fullnamed.append(("finR", gen.mirror_mesh(m)))
        else:
            fullnamed.append((n, full_of(m, side)))
    if s["ground"]:
        fullnamed = fullnamed + [(n + "_img", reflect(m, s["alpha"], h)) for n, m in fullnamed]
    s2 = dict(s)
    pf_ = _aero_model(fullnamed, [False] * len(fullnamed), s2)
    viol, validated = [], 0
    wh = dict(sset=s["sset"], ground=s["ground"], comp=s["comp"])
    Fsc = max(max(np.abs(ph["ap.aero_states.%s_sec_forces" % n]).max() for n, _ in named), gen.force_floor(0.5, 200.0, [m for _, m in named]))
    cdw_bad = False

    def cmp(name, a, b, scale=None, extra=None):
        nonlocal validated
        validated += 1
        a = np.asarray(a, float)
        b = np.asarray(b, float)
        sc = scale if scale is not None else max(np.abs(b).max(), 1e-6)
        e = np.abs(a - b).max() / sc
        if not e <= TOL_A:
            sig = dict(oracle="half_vs_full", observable=name, **wh)
            sig.update(extra or {})
            viol.append(dict(sig=sig, msg="%s: half model %s vs full model %s (rel %.2e)" % (name, np.array2string(a.ravel()[:3], precision=8), np.array2string(b.ravel()[:3], precision=8), e), measure=float(e)))
            return False
        return True

    for n, m in named:
        nyp = m.shape[1] - 1
        Fh = ph["ap.aero_states.%s_sec_forces" % n]
        Ff = half_of(pf_["ap.aero_states.%s_sec_forces" % n], nyp)
        cmp("sec_forces", Fh, Ff, Fsc, dict(surf=n))
        multi = 2.0 if n == "fin" else 1.0  # the full model carries the fin as two surfaces
        for q in ("CL", "CDi", "CDv"):
            cmp(q, ph["ap.%s_perf.%s" % (n, q)], pf_["ap.%s_perf.%s" % (n, q)], extra=dict(surf=n))
        # wave drag: characteristic factor recorded so that a known finding matches only the exact doubling
        a, b = ph["ap.%s_perf.CDw" % n][0], pf_["ap.%s_perf.CDw" % n][0]
        validated += 1
        if not abs(a - b) <= TOL_A * max(abs(b), 1e-6):
            ratio = a / b if b != 0 else float("inf")
            char = "half=2*full" if abs(ratio - 2.0) < 1e-9 else "other"
            cdw_bad = True
            viol.append(dict(sig=dict(oracle="half_vs_full", observable="CDw", char=char, **wh), msg="CDw half %.10g vs full %.10g (ratio %.6g)" % (a, b, ratio), measure=float(abs(a - b))))
        # CD without the wave part
        cmp("CD-CDw", ph["ap.%s_perf.CD" % n] - ph["ap.%s_perf.CDw" % n], pf_["ap.%s_perf.CD" % n] - pf_["ap.%s_perf.CDw" % n], extra=dict(surf=n))
        cmp("S_ref", ph["ap.%s.S_ref" % n], multi * pf_["ap.%s.S_ref" % n], extra=dict(surf=n))
        cmp("L", ph["ap.%s_perf.L" % n], multi * pf_["ap.%s_perf.L" % n], Fsc * 10, dict(surf=n))
        cmp("D", ph["ap.%s_perf.D" % n], multi * pf_["ap.%s_perf.D" % n], Fsc * 10, dict(surf=n))
    if not s["ground"]:
        # aircraft totals (with ground effect the full model also contains the image surfaces)
        cmp("CL_total", ph["ap.CL"], pf_["ap.CL"])
        cmp("CM_total", ph["ap.CM"], pf_["ap.CM"], max(np.abs(pf_["ap.CM"]).max(), 1e-3))
        cdw_h = sum(ph["ap.%s_perf.CDw" % n][0] * ph["ap.%s.S_ref" % n][0] for n, _ in named) / sum(ph["ap.%s.S_ref" % n][0] for n, _ in named)
        cdw_f = sum(pf_["ap.%s_perf.CDw" % n][0] * pf_["ap.%s.S_ref" % n][0] for n, _ in fullnamed) / sum(pf_["ap.%s.S_ref" % n][0] for n, _ in fullnamed)
        cmp("CD_total-CDw", ph["ap.CD"] - cdw_h, pf_["ap.CD"] - cdw_f)
    if not s["ground"] and s["sset"] == "wing_tail":
        # symmetry is a per-surface setting: the same aircraft with only ONE of the two surfaces modelled as a half
        for pat in ([True, False], [False, True]):
            mixed = [(n, m if sy else full_of(m, side)) for (n, m), sy in zip(named, pat)]
            pm_ = _aero_model(mixed, pat, s)
            tag = dict(mixed="".join("h" if sy else "f" for sy in pat))
            for (n, m), sy in zip(named, pat):
                nyp = m.shape[1] - 1
                Fm = pm_["ap.aero_states.%s_sec_forces" % n] if sy else half_of(pm_["ap.aero_states.%s_sec_forces" % n], nyp)
                cmp("sec_forces", Fm, half_of(pf_["ap.aero_states.%s_sec_forces" % n], nyp), Fsc, dict(surf=n, **tag))
                for q in ("CL", "CDi", "CDv"):
                    cmp(q, pm_["ap.%s_perf.%s" % (n, q)], pf_["ap.%s_perf.%s" % (n, q)], extra=dict(surf=n, **tag))
                cmp("S_ref", pm_["ap.%s.S_ref" % n], pf_["ap.%s.S_ref" % n], extra=dict(surf=n, **tag))
            cmp("CL_total", pm_["ap.CL"], pf_["ap.CL"], extra=tag)
            cmp("CM_total", pm_["ap.CM"], pf_["ap.CM"], max(np.abs(pf_["ap.CM"]).max(), 1e-3), extra=tag)
            cdw_m = sum(pm_["ap.%s_perf.CDw" % n][0] * pm_["ap.%s.S_ref" % n][0] for n, _ in named) / sum(pm_["ap.%s.S_ref" % n][0] for n, _ in named)
            cmp("CD_total-CDw", pm_["ap.CD"] - cdw_m, pf_["ap.CD"] - cdw_f, extra=tag)
    return dict(viol=viol, nontrivial=bool(Fsc > 1e-9), digest=digest_arrays(*[ph["ap.aero_states.%s_sec_forces" % n] for n, _ in named]), transitions=2, validated=validated)


def _as_model(mesh, sym, s, mirror_pm=False, ynode=None):
    kw = dict(struct_weight_relief=s["relief"], distributed_fuel_weight=s["fuel"], with_viscous=s["visc"], with_wave=s["wave"], exact_failure_constraint=True)
    pm = None
    if s["pmass"]:
        kw["n_point_masses"] = 2 if mirror_pm else 1
    surf = builders.struct_surface("wing", mesh, sym, s["model"], **kw)
    if s["pmass"]:
        # at the spanwise station of the second structural node of the left half
        ynode = mesh[0, 1, 1] if ynode is None else ynode
        loc = [[1.1, ynode, -0.35]]
        pm = dict(point_masses=[600.0], engine_thrusts=[5.0e3], point_mass_locations=loc)
        if mirror_pm:
            pm = dict(point_masses=[600.0, 600.0], engine_thrusts=[5.0e3, 5.0e3], point_mass_locations=loc + [[1.1, -ynode, -0.35]])
    fl = dict(Mach_number=0.84 if s["wave"] else 0.5, W0=2.0e3, v=100.0, rho=0.9, alpha=4.0, speed_of_sound=200.0, R=2.0e6, load_factor=1.3)
    p = builders.build_aerostruct([surf], fl, pm=pm, fuel_vol_delta=(s["model"] == "wingbox"))
    builders.tighten(p)
    p.run_model()
    return p


def part_as(s):
    side = s.get("side", "left")
    half = gen.make_mesh(s["pf"], s["nx"], s["ny"], side, s["fam"], span=10.0, chord=1.6)
    full = full_of(half, side)
    L = side == "left"
    ph = _as_model(half, True, s, ynode=half[0, 1, 1])
    pf_ = _as_model(full, False, s, mirror_pm=True, ynode=half[0, 1, 1])
    ny = half.shape[1]
    viol, validated = [], 0
    wh = dict(model=s["model"], relief=s["relief"], fuel=s["fuel"], pmass=s["pmass"])
    A = "AS_point_0."
    downstream = False

    def cmp(name, a, b, scale=None, tol=TOL_S, extra=None):
        nonlocal validated
        validated += 1
        a = np.asarray(a, float)
        b = np.asarray(b, float)
        sc = scale if scale is not None else max(np.abs(b).max(), 1e-6)
        e = np.abs(a - b).max() / sc
        if not e <= tol:
            sig = dict(oracle="half_vs_full", observable=name, **wh)
            sig.update(extra or {})
            viol.append(dict(sig=sig, msg="%s: half %s vs full %s (rel %.2e)" % (name, np.array2string(a.ravel()[:3], precision=8), np.array2string(b.ravel()[:3], precision=8), e), measure=float(e)))

    Fh = ph[A + "coupled.aero_states.wing_sec_forces"]
    Fsc = max(np.abs(Fh).max(), 1e-300)
    Ff = pf_[A + "coupled.aero_states.wing_sec_forces"]
    cmp("sec_forces", Fh, Ff[:, : ny - 1] if L else Ff[:, -(ny - 1) :], Fsc)
    cmp("disp", ph[A + "coupled.wing.disp"], pf_[A + "coupled.wing.disp"][:ny] if L else pf_[A + "coupled.wing.disp"][-ny:])
    # nodal loads of the modelled half, root node excluded: in the full model the centre node also collects the
    # adjacent panel of the other half
    lh, lf = ph[A + "coupled.wing_loads.loads"], pf_[A + "coupled.wing_loads.loads"]
    cmp("loads", lh[: ny - 1] if L else lh[1:], lf[: ny - 1] if L else lf[-(ny - 1) :], max(np.abs(lh).max(), 1e-300))
    cmp("vonmises", ph[A + "wing_perf.vonmises"], pf_[A + "wing_perf.vonmises"][: ny - 1] if L else pf_[A + "wing_perf.vonmises"][-(ny - 1) :])
    cmp("structural_mass", ph["wing.structural_mass"], pf_["wing.structural_mass"], tol=1e-9)
    cmp("cg_location", ph["wing.cg_location"], pf_["wing.cg_location"], max(np.abs(pf_["wing.cg_location"]).max(), 1e-3), tol=1e-9)
    cmp("S_ref", ph[A + "coupled.wing.S_ref"], pf_[A + "coupled.wing.S_ref"])
    for q in ("CL", "CM"):
        cmp(q, ph[A + q], pf_[A + q], max(np.abs(pf_[A + q]).max(), 1e-3))
    for q in ("CDi", "CDv"):
        cmp(q, ph[A + "wing_perf." + q], pf_[A + "wing_perf." + q])
    a, b = ph[A + "wing_perf.CDw"][0], pf_[A + "wing_perf.CDw"][0]
    validated += 1
    if not abs(a - b) <= TOL_S * max(abs(b), 1e-6):
        ratio = a / b if b != 0 else float("inf")
        downstream = True
        viol.append(dict(sig=dict(oracle="half_vs_full", observable="CDw", char="half=2*full" if abs(ratio - 2.0) < 1e-6 else "other"), msg="CDw half %.10g vs full %.10g (ratio %.6g)" % (a, b, ratio), measure=float(abs(a - b))))
    cmp("CD-CDw", ph[A + "CD"] - ph[A + "wing_perf.CDw"], pf_[A + "CD"] - pf_[A + "wing_perf.CDw"])
    ex = dict(downstream_of="CDw") if downstream else None
    for q in ("fuelburn", "L_equals_W", "cg"):
        cmp(q, ph[A + q], pf_[A + q], max(np.abs(pf_[A + q]).max(), 1e-3), extra=ex)
    cmp("total_weight", ph[A + "total_perf.total_weight"], pf_[A + "total_perf.total_weight"], extra=ex)
    if s["model"] == "wingbox":
        # the fuel-volume margin of a symmetric surface is, by documented design (C16: "the half-span share"), the margin
        # of the modelled half: volume of one half minus half of the fuel
        cmp("fuel_vol_delta(half share)", 2.0 * ph["fuel_vol_delta.fuel_vol_delta"], pf_["fuel_vol_delta.fuel_vol_delta"], max(abs(pf_["fuel_vol_delta.fuel_vol_delta"][0]), 1e-3), extra=ex)
    return dict(viol=viol, nontrivial=bool(Fsc > 1e-9 and np.abs(ph[A + "coupled.wing.disp"]).max() > 1e-9), digest=digest_arrays(Fh, ph[A + "coupled.wing.disp"]), transitions=2, validated=validated)
