"""C01 - analytic component derivatives equal the true derivatives at every input."""
import numpy as np
import openmdao.api as om

from oasmc.checks import c01_cases as cases
from oasmc.engine import digest_arrays
from oasmc.ref import ref_deriv

ID = "C01"
RULE = (
    "complete product component class x its configuration axes (nx, ny, side, ground effect, surfaces, options) x input point "
    "(declared defaults, special values, two generic points); each state linearises the real component TWICE in the same object (another "
    "point first) and compares Problem.compute_totals in fwd and rev mode, dense, with Richardson-extrapolated central differences of "
    "run_model; non-trivial = distinct states whose reference Jacobian has a non-zero entry"
)
ASSUMPTIONS = [
    "finite alphabets for shapes, options and input points; nx<=4, ny<=5(7), <=2 surfaces",
    "derivative oracle: real-arithmetic Richardson differences with error estimate (DESIGN 4.2); entries whose estimate exceeds 1e-3 of the row scale are counted as unreliable, never as violations",
    "documented non-smooth points (wave-drag onset, 1e-6 N load zeroing, zero displacement in the tube stress) are excluded from the alphabets",
    "OpenMDAO/NumPy/SciPy trusted",
]
BOUND = {"quick": "nx<=3, ny<=4(5 full), special + 1 generic point", "thorough": "nx<=4, ny<=5(7 full), default + special + 2 generic points"}


def states(tier, seed):
    return cases.enumerate_states(tier, seed % 3)


def build(comp, mode):
    p = om.Problem(reports=False)
    p.model.add_subsystem("c", comp, promotes=["*"])
    p.setup(mode=mode)
    p.final_setup()
    return p


def set_inputs(p, ins, names):
    for n in names:
        if n in ins:
            p.set_val(n, ins[n])


def resolve(p, spec, ins, s, kind):
    """complete input assignment: explicit entries, then the case's '*' filler, then gen() in [0.5, 1.5]"""
    if spec is None:
        return None
    out = {}
    fill = spec.get("*")
    for k, n in enumerate(ins):
        shp = p.get_val(n).shape
        if n in spec:
            out[n] = np.asarray(spec[n], dtype=float).reshape(shp)
        elif fill is not None:
            out[n] = np.asarray(fill(n, shp, k), dtype=float).reshape(shp)
        else:
            out[n] = cases.gv(shp, k, 0.5, 1.5, s, kind)
    return out


def run_state(s):
    case = cases.CASES[s["comp"]]
    opts = case.opts
    kind = s["kind"]
    other = "gen1" if kind != "gen1" else "gen0"
    skip = set(opts.get("skip_wrt", ()))
    typ = opts.get("typ", {})
    hrel = opts.get("hrel", 1e-3)
    rtol = opts.get("rtol", 1e-6)
    probs = {}
    for mode in ("fwd", "rev"):
        probs[mode] = build(case.make(s), mode)
    p = probs["fwd"]
    ins = list(p.model.c._var_rel_names["input"])
    outs = [o for o in p.model.c._var_rel_names["output"] if o not in opts.get("skip_of", ())]
    wrts = [n for n in ins if n not in skip]
    A = resolve(p, case.point(s, other), ins, s, other)  # another admissible point, visited and linearised first
    B = resolve(p, case.point(s, kind), ins, s, kind)  # the state's point (None: declared defaults)
    T = {}
    evals = 0
    for mode, q in probs.items():
        if A is not None:
            set_inputs(q, A, ins)
            q.run_model()
            q.compute_totals(of=outs, wrt=wrts)
            evals += 2
        if B is not None:
            set_inputs(q, B, ins)
        elif A is not None:
            # back to the declared defaults
            fresh = build(case.make(s), mode)
            for n in ins:
                q.set_val(n, fresh.get_val(n))
        q.run_model()
        T[mode] = q.compute_totals(of=outs, wrt=wrts)
        evals += 2
    osz = [p.get_val(o).size for o in outs]
    f0 = np.concatenate([np.asarray(p.get_val(o), float).ravel() for o in outs])
    if not np.all(np.isfinite(f0)):
        return dict(viol=[], nontrivial=False, digest="nonfinite", transitions=evals, validated=0, inadmissible=True)
    viol, entries, unrel, nz = [], 0, 0, 0
    worst = 0.0
    digest_parts = []
    for w in wrts:
        x0 = np.array(p.get_val(w), dtype=float)

        def f(x, w=w):
            p.set_val(w, x.reshape(x0.shape))
            p.run_model()
            return np.concatenate([np.asarray(p.get_val(o), float).ravel() for o in outs])

        sc = np.abs(x0).max()
        hs = sc if sc > 0 else typ.get(w, 1.0)
        hs = max(hs, typ.get(w, 0.0))
        J, E, floor, h = ref_deriv.jacobian(f, x0, hrel=hrel, hscale=hs)
        evals += 6 * x0.size + 1
        p.set_val(w, x0)
        p.run_model()
        if not np.all(np.isfinite(J)):
            # oracle cannot be evaluated here (outside the admissible domain)
            unrel += J.size
            entries += J.size
            continue
        digest_parts.append(J)
        nz += int(np.count_nonzero(np.abs(J) > 1e-12 * max(np.abs(J).max(initial=0.0), 1e-300)))
        for mode in ("fwd", "rev"):
            an = np.vstack([np.asarray(T[mode][o, w]).reshape(n, -1) for o, n in zip(outs, osz)])
            bad, un, S, rel = ref_deriv.compare(an, J, E, floor, rtol=rtol)
            entries += an.size
            unrel += int(un.sum())
            if bad.any():
                # report per (output, input) block
                r0 = 0
                for o, n in zip(outs, osz):
                    blk = bad[r0 : r0 + n]
                    if blk.any():
                        relb = np.where(blk, rel[r0 : r0 + n], 0.0)
                        i, j = np.unravel_index(np.argmax(relb), relb.shape)
                        stale = ""
                        viol.append(
                            dict(
                                sig=dict(oracle="richardson", comp=s["comp"], of=o, wrt=w, mode=mode, **cases.sig_tags(s)),
                                msg="d %s/d %s [%d,%d] (%s): analytic %.8g, Richardson %.8g +- %.1e; %d of %d entries wrong%s" % (o, w, i, j, mode, an[r0 + i, j], J[r0 + i, j], E[r0 + i, j], int(blk.sum()), blk.size, stale),
                                measure=float(relb.max()),
                            )
                        )
                    r0 += n
            worst = max(worst, float(np.where(un, 0.0, rel).max(initial=0.0)))
    return dict(
        viol=viol,
        nontrivial=bool(nz > 0),
        digest=digest_arrays(*digest_parts) if digest_parts else "empty",
        transitions=evals,
        validated=entries,
        unreliable=unrel,
        entries=entries,
        counters=dict(nonzero_reference_entries=nz),
    )
