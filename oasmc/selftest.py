"""setup_cmd: reference-model self-tests and framework reproductions (DESIGN.md 2, 3.4)."""
import json
import os
import sys
import tempfile


def sellar_krylov_fwd():
    """documents why (ScipyKrylov+LinearRunOnce, fwd) is excluded from solver axes: it fails on
    OpenMDAO's own Sellar problem in this image.  Not an assertion - just recorded."""
    import numpy as np
    import openmdao.api as om
    from openmdao.test_suite.components.sellar import SellarDerivatives

    out = {}
    for mode in ("fwd", "rev"):
        p = om.Problem(SellarDerivatives(), reports=False)
        p.model.nonlinear_solver = om.NonlinearBlockGS(iprint=-1, atol=1e-14, rtol=1e-14)
        p.model.linear_solver = om.ScipyKrylov(iprint=-1, atol=1e-14, rtol=1e-14)
        p.model.linear_solver.precon = om.LinearRunOnce(iprint=-1)
        p.setup(mode=mode)
        p.set_solver_print(-1)
        p.run_model()
        try:
            t = p.compute_totals(of=["obj"], wrt=["z"])
            out[mode] = np.asarray(t["obj", "z"]).ravel().tolist()
        except Exception as e:  # noqa
            out[mode] = "raised %s" % type(e).__name__
    return out


def main():
    from oasmc.ref import ref_beam, ref_deriv, ref_vlm

    ok = True
    for name, fn in [("ref_vlm", ref_vlm.selftest), ("ref_deriv", ref_deriv.selftest), ("ref_beam", ref_beam.selftest)]:
        r, info = fn()
        print("selftest %-10s %s %s" % (name, "ok" if r else "FAILED", json.dumps(info, default=float)))
        ok &= bool(r)
    try:
        print("framework note (Sellar, Krylov+RunOnce):", json.dumps(sellar_krylov_fwd()))
    except Exception as e:  # noqa
        print("framework note unavailable:", e)
    # evidence schema round trip
    from oasmc import run

    d = dict(property_id="C00", tier="quick", seed=0, level="model_checking", coverage=dict(states=1, transitions=1, traces_validated_against_impl=1, samples=[{}]), wall_s=0.0)
    with tempfile.NamedTemporaryFile("w", suffix=".json", delete=False) as fh:
        json.dump(d, fh)
    v = run.validate_evidence(fh.name)
    os.unlink(fh.name)
    print("selftest evidence-schema %s" % ("ok" if v else "FAILED"))
    ok &= v
    os.makedirs(os.path.join(run.ROOT, "evidence"), exist_ok=True)
    return 0 if ok else 2
