"""Exploration engines (DESIGN.md section 3).

Engine L: exhaustive enumeration of a finite lattice of states, every state executed on the
real implementation in a pool of long-lived worker processes, an oracle evaluated on each.

Engine H (history exploration) is built on top of L: a check may generate its state list by a
breadth-first search (see oasmc/history.py) and hands the complete list of histories to L.

A check module provides
    ID, TITLE, RULE, ASSUMPTIONS
    states(tier, seed) -> list of JSON-able dicts   (admissible states, complete enumeration)
                          or (list, n_inadmissible)
    run_state(state)   -> dict(viol=[{sig, msg, measure}], nontrivial, digest, transitions,
                               validated, unreliable, entries, inadmissible)
"""
import concurrent.futures as cf
import hashlib
import json
import multiprocessing as mp
import os
import shutil
import sys
import tempfile
import time
import traceback

import numpy as np

ROOT = os.environ.get("OASMC_ROOT", "/verif")
REPO_OAS = os.path.realpath(os.environ.get("OASMC_REPO", "/repo")) + "/openaerostruct"


class InternalError(Exception):
    pass


def jdump(o):
    return json.dumps(o, sort_keys=True, default=_js)


def _js(o):
    if isinstance(o, np.ndarray):
        return o.tolist()
    if isinstance(o, (np.floating,)):
        return float(o)
    if isinstance(o, (np.integer,)):
        return int(o)
    if isinstance(o, (np.bool_,)):
        return bool(o)
    if isinstance(o, complex):
        return [o.real, o.imag]
    return str(o)


def digest_arrays(*arrs, nd=9):
    """outcome digest: rounded to nd significant digits so that round-off does not create
    'distinct outcomes'"""
    h = hashlib.sha256()
    for a in arrs:
        a = np.atleast_1d(np.asarray(a, dtype=float))
        with np.errstate(all="ignore"):
            s = np.max(np.abs(a)) if a.size else 0.0
            if not np.isfinite(s) or s == 0:
                q = np.nan_to_num(a)
            else:
                q = np.round(a / s, nd) + 0.0
        h.update(repr(float(s)).encode() if np.isfinite(s) else b"nan")
        h.update(np.ascontiguousarray(q).tobytes())
    return h.hexdigest()[:16]


_CHECK = None


def _worker_init(modname, scratch):
    global _CHECK
    import importlib
    import warnings

    warnings.simplefilter("ignore")
    os.chdir(scratch)
    _CHECK = importlib.import_module(modname)
    np.seterr(all="ignore")


def oas_origin(tb):
    """True iff the innermost frames of the traceback are in /repo/openaerostruct (the exception
    was raised by OAS code, not by the harness or by a framework), walking from the innermost
    frame outwards past framework (openmdao/numpy/scipy) frames."""
    frames = traceback.extract_tb(tb)
    for fr in reversed(frames):
        fn = fr.filename
        if REPO_OAS in fn:
            return True
        if "/oasmc/" in fn:
            return False
    return False


def _safe_run(state):
    t0 = time.time()
    try:
        r = _CHECK.run_state(state)
    except Exception as e:  # noqa
        et, ev, tb = sys.exc_info()
        txt = "".join(traceback.format_exception(et, ev, tb))
        if oas_origin(tb):
            last = [f for f in traceback.extract_tb(tb) if REPO_OAS in f.filename][-1]
            r = dict(
                viol=[
                    dict(
                        sig=dict(oracle="no_exception", exc=et.__name__, file=os.path.basename(last.filename), func=last.name),
                        msg="OAS raised %s: %s" % (et.__name__, str(ev)[:300]),
                    )
                ],
                nontrivial=True,
                digest="exc",
                transitions=1,
                validated=0,
                trace=txt[-2000:],
            )
        else:
            r = dict(error=txt)
    r["wall"] = time.time() - t0
    # which worker ran this state, and as its how-manyth: lets the runner reconstruct what the same process had
    # executed before (a violation that needs that prefix is a dependence on hidden process-level state)
    global _SEQ
    _SEQ += 1
    r["_pid"], r["_seq"] = os.getpid(), _SEQ
    return r


_SEQ = 0


def worker_prefix(states, results, i):
    """the states executed before state i by the same worker process, in execution order"""
    pid, seq = results[i].get("_pid"), results[i].get("_seq", 0)
    prev = [(r.get("_seq", 0), k) for k, r in enumerate(results) if r.get("_pid") == pid and r.get("_seq", 0) < seq]
    return [states[k] for _, k in sorted(prev)]


def run_one(check, state):
    """in-process execution (replay)"""
    global _CHECK
    _CHECK = check
    np.seterr(all="ignore")
    return _safe_run(state)


def sigkey(sig):
    return jdump(sig)


def explore(check, tier, seed, nproc=None, log=print):
    """runs every state of the check in a process pool.  Two protocols:
    * check.states(tier, seed) -> complete list (engine L)
    * check.levels(tier, seed) -> generator yielding batches of states and receiving their results (engine H: a
      level-synchronous breadth-first search that prunes on the state digests returned by the workers)"""
    t0 = time.time()
    n_inadm = 0
    scratch = tempfile.mkdtemp(prefix="oasmc_%s_" % check.ID)
    nproc = nproc or int(os.environ.get("OASMC_NPROC", os.cpu_count() or 4))
    serial = nproc == 1 or bool(os.environ.get("OASMC_SERIAL"))
    all_states, all_results = [], []
    ex = None
    try:
        if serial:
            _worker_init(check.__name__, scratch)
        else:
            ctx = mp.get_context("fork")
            ex = cf.ProcessPoolExecutor(nproc, mp_context=ctx, initializer=_worker_init, initargs=(check.__name__, scratch))

        def run_batch(st):
            if not st:
                return []
            if serial:
                return [_safe_run(s) for s in st]
            chunk = max(1, min(16, len(st) // (nproc * 8)))
            try:
                return list(ex.map(_safe_run, st, chunksize=chunk))
            except cf.process.BrokenProcessPool as e:
                raise InternalError("worker process died: %r" % (e,))

        if hasattr(check, "levels"):
            g = check.levels(tier, seed)
            try:
                batch = next(g)
                while True:
                    batch = list(batch)
                    res = run_batch(batch)
                    all_states += batch
                    all_results += res
                    errs = [(s, r["error"]) for s, r in zip(batch, res) if "error" in r]
                    if errs:
                        raise InternalError("harness error in %d state(s); first at state %s:\n%s" % (len(errs), jdump(errs[0][0])[:600], errs[0][1]))
                    batch = g.send(res)
            except StopIteration as e:
                if e.value:
                    n_inadm = int(e.value)
        else:
            st = check.states(tier, seed)
            if isinstance(st, tuple):
                st, n_inadm = st
            all_states = list(st)
            all_results = run_batch(all_states)
    finally:
        if ex is not None:
            ex.shutdown(wait=True, cancel_futures=True)
        os.chdir(ROOT)
        shutil.rmtree(scratch, ignore_errors=True)
    if not all_states:
        raise InternalError("empty state space")
    errs = [(i, r["error"]) for i, r in enumerate(all_results) if "error" in r]
    if errs:
        i, e = errs[0]
        raise InternalError("harness error in %d state(s); first at state %s:\n%s" % (len(errs), jdump(all_states[i])[:600], e))
    return all_states, all_results, n_inadm, time.time() - t0


def letter_hits(states, maxvals=40):
    hits = {}

    def visit(prefix, d):
        for k, v in d.items():
            if k.startswith("_"):
                continue
            if isinstance(v, dict):
                visit(prefix + k + ".", v)
                continue
            if isinstance(v, (list, tuple)):
                v = jdump(v)
                if len(v) > 60:
                    continue
            hits.setdefault(prefix + k, {})
            hv = hits[prefix + k]
            key = str(v)
            if key in hv or len(hv) < maxvals:
                hv[key] = hv.get(key, 0) + 1

    for s in states:
        visit("", s)
    return hits
