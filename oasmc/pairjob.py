"""Runs, in THIS fresh interpreter, a sequence of model configurations (setup, run, totals each) and prints a digest of the
observations of the last one.  Used by C20 part 'fresh': the only way to compare against a process in which nothing else has
ever been built (module- or class-level state that is written once cannot be seen from inside a long-lived worker)."""
import hashlib
import json
import sys
import warnings

import numpy as np


def main():
    warnings.simplefilter("ignore")
    job = json.loads(sys.argv[1])
    from oasmc.checks import c20

    obs = None
    for k in job.get("gens", []):
        obs = c20.gen_call(k)[0]
    for k in job.get("builders", []):
        obs = c20.builder_call(k)
    for cfg in job.get("cfgs", []):
        sc = c20.Script(cfg, job["fam"])
        sc.OPS = ["setup", "run", "totals"]
        for _ in sc.OPS:
            sc.step()
        obs = sc.obs
    h = hashlib.sha256()
    for a in obs:
        h.update(np.ascontiguousarray(np.asarray(a, dtype=float)).tobytes())
    print("DIGEST " + h.hexdigest() + " " + json.dumps([float(np.abs(a).max()) for a in obs]))


if __name__ == "__main__":
    main()
