"""Engine H - explicit-state exploration of operation histories on live OpenMDAO problems (DESIGN 3.2).

A state is the operation history that reaches it from a freshly built Problem (live objects hold
SuperLU handles and framework vectors and are not copyable); a step rebuilds a fresh Problem and
replays the history.  States are identified by a digest over every number the code could read
later; a history whose digest has been seen is not extended (sound: equal digests have identical
futures; a digest that is too fine only costs time).
"""
import contextlib
import hashlib
import io
import sys

import numpy as np
import openmdao.api as om
import scipy.sparse as sp


def _leaves(obj, depth=0):
    if isinstance(obj, np.ndarray):
        if obj.dtype.kind in "fciub":
            yield obj
    elif sp.issparse(obj):
        yield obj.data
    elif isinstance(obj, (float, np.floating, complex)):
        yield np.array([obj])
    elif isinstance(obj, (tuple, list)) and depth < 3:
        for o in obj:
            yield from _leaves(o, depth + 1)
    elif isinstance(obj, dict) and depth < 3:
        for k in sorted(obj, key=str):
            yield from _leaves(obj[k], depth + 1)
    elif type(obj).__name__ == "SuperLU":
        for a in ("perm_c", "perm_r"):
            yield np.asarray(getattr(obj, a))
        yield obj.L.data
        yield obj.U.data


SKIP_ATTRS = {"options", "comm", "pathname", "name", "cite", "iter_count", "iter_count_apply", "iter_count_without_approx", "matrix_free", "under_complex_step", "under_finite_difference", "under_approx"}


def digest(p, extra=()):
    """sha256 over all numeric state reachable from every component (public attributes and caches, sparse data, LU
    factors), every sub-Jacobian value array, the model vectors, and module-level arrays of openaerostruct modules"""
    h = hashlib.sha256()
    for s in p.model.system_iter(recurse=True, include_self=True):
        if isinstance(s, om.Group):
            continue
        if type(s).__module__.startswith("openmdao"):
            continue
        for k, v in sorted(vars(s).items()):
            if k in SKIP_ATTRS or (k.startswith("_") and k not in ("_lup", "_cached_constant_partial_vals")):
                continue
            for a in _leaves(v):
                h.update(k.encode())
                h.update(np.ascontiguousarray(a).tobytes())
        jac = getattr(s, "_jacobian", None)
        if jac is not None:
            info = getattr(jac, "_subjacs_info", None)
            if info:
                for key in sorted(info, key=str):
                    sj = info[key]
                    val = sj.info["val"] if hasattr(sj, "info") else (sj["val"] if isinstance(sj, dict) else None)
                    if val is None:
                        continue
                    h.update(np.ascontiguousarray(val.data if sp.issparse(val) else val).tobytes())
    for n in ("_outputs", "_inputs", "_residuals"):
        h.update(getattr(p.model, n).asarray().tobytes())
    for mn in sorted(m for m in sys.modules if m.startswith("openaerostruct")):
        mod = sys.modules[mn]
        if mod is None:
            continue
        for k, v in sorted(vars(mod).items()):
            if isinstance(v, np.ndarray) and v.dtype.kind in "fc" and v.size < 100000 and not k.isupper():
                h.update(k.encode())
                h.update(np.ascontiguousarray(v).tobytes())
    for e in extra:
        h.update(repr(e).encode())
    return h.hexdigest()[:24]


class Model:
    """a model under history exploration: build(mode) -> Problem (set up), points: list of {input: value},
    of / wrt for compute_totals"""

    def __init__(self, name, build, points, of, wrt, tol=1e-10, chk_tol=1e-4, has_chk=True):
        self.name, self.build, self.points, self.of, self.wrt, self.tol, self.chk_tol, self.has_chk = name, build, points, of, wrt, tol, chk_tol, has_chk


def set_point(p, pt):
    for k, v in pt.items():
        p.set_val(k, v)


def variant(a, kind):
    """a perturbation of an array that PRESERVES the summaries a cache could be keyed on: 'swap' exchanges two entries (same
    sum, norm, extrema, sorted values; off-diagonal entries for square matrices: same diagonal too), 'offdiag' changes
    only the off-diagonal part of a square matrix, 'interior' leaves the first and last entry (row) alone.  None if not applicable"""
    a = np.array(a, dtype=float)
    if a.size < 2:
        return None
    sc = max(np.abs(a).max(), 1e-3)
    b = a.copy()
    square = a.ndim == 2 and a.shape[0] == a.shape[1] and a.shape[0] >= 2
    if kind == "swap":
        f = b.reshape(-1)
        idx = [i for i in range(f.size) if not (square and i // a.shape[1] == i % a.shape[1])]
        for i in idx:
            for j in idx:
                if j > i and abs(f[i] - f[j]) > 1e-3 * sc:
                    f[i], f[j] = f[j], f[i]
                    return b
        return None
    if kind == "offdiag":
        if not square:
            return None
        n = a.shape[0]
        pat = 0.05 * sc * np.sin(1.0 + np.arange(n * n).reshape(n, n))
        pat[np.arange(n), np.arange(n)] = 0.0
        return a + pat
    if kind == "interior":
        if a.shape[0] < 3:
            return None
        b[1:-1] = b[1:-1] * 1.07 + 0.03 * sc
        return b
    raise ValueError(kind)


def point_of(model, key):
    """a design point: an index into model.points; ('mix', base, other, name): the base point with the single input 'name'
    taken from the other point ('only one thing changed'); ('var', base, name, kind): the base point with the single input
    'name' replaced by a summary-preserving variant of itself"""
    if isinstance(key, (list, tuple)):
        if key[0] == "var":
            _, base, name, kind = key
            pt = dict(model.points[base])
            pt[name] = variant(pt[name], kind)
            return pt
        _, base, other, name = key
        pt = dict(model.points[base])
        pt[name] = model.points[other][name]
        return pt
    return model.points[key]


def apply_op(p, model, op, st):
    """st: harness-side flags {k: current point or None, consistent: bool, chk: bool}"""
    kind = op[0]
    if kind in ("gotom", "gotov"):
        key = ("mix" if kind == "gotom" else "var", op[1], op[2], op[3])
        set_point(p, point_of(model, key))
        p.run_model()
        st.update(k=key, consistent=True)
    elif kind == "goto":
        set_point(p, model.points[op[1]])
        p.run_model()
        st.update(k=op[1], consistent=True)
    elif kind == "set":
        set_point(p, model.points[op[1]])
        if not (st["consistent"] and st["k"] == op[1]):
            st.update(k=op[1], consistent=False)
    elif kind == "rerun":
        p.run_model()
        st["consistent"] = st["k"] is not None
    elif kind == "lin":
        p.model.run_linearize()
    elif kind == "tot":
        return p.compute_totals(of=model.of, wrt=model.wrt)
    elif kind == "resetup":
        # prob.setup() again on the LIVE problem (what a user does to switch mode / allocate complex vectors): the framework calls
        # every component's setup() a second time on the same instance; inputs go back to their declared defaults
        p.setup(mode=p._orig_mode)
        p.final_setup()
        st.update(k=None, consistent=False, chk=False)
    elif kind == "chk":
        with contextlib.redirect_stdout(io.StringIO()):
            p.check_partials(compact_print=True, out_stream=None)
        st["chk"] = True
    else:
        raise ValueError(op)
    return None


def outputs_vec(p, model):
    return np.concatenate([np.asarray(p.get_val(o), float).ravel() for o in model.of])


def totals_vec(p, model, T=None):
    T = T if T is not None else p.compute_totals(of=model.of, wrt=model.wrt)
    rows = []
    for o in model.of:
        n = p.get_val(o).size
        rows.append(np.hstack([np.asarray(T[o, w]).reshape(n, -1) for w in model.wrt]))
    return np.vstack(rows)


_REF = {}


def reference(model, mode, k):
    """what a freshly built problem evaluated once at point k returns"""
    key = (model.name, mode, k)
    if key not in _REF:
        p = model.build(mode)
        st = dict(k=None, consistent=False, chk=False)
        apply_op(p, model, (("gotom" if k[0] == "mix" else "gotov"), k[1], k[2], k[3]) if isinstance(k, tuple) else ("goto", k), st)
        out = outputs_vec(p, model)
        tot = totals_vec(p, model)
        _REF[key] = (out, tot)
    return _REF[key]


def replay(model, mode, hist):
    p = model.build(mode)
    st = dict(k=None, consistent=False, chk=False)
    last = None
    for op in hist:
        last = apply_op(p, model, tuple(op), st)
    return p, st, last


def check_invariants(model, mode, hist):
    """replays the history on a fresh problem, takes the state digest, then evaluates the probes.
    returns (violations, digest, flags, n_probes)"""
    p, st, last = replay(model, mode, hist)
    dg = digest(p, extra=(st["k"], st["consistent"], st["chk"]))
    viol = []
    if st["k"] is None:
        return viol, dg, st, 0
    ref_out, ref_tot = reference(model, mode, st["k"])
    tol = model.chk_tol if st["chk"] else model.tol
    nprobe = 0

    def cmp_out(tag):
        nonlocal nprobe
        nprobe += 1
        o = outputs_vec(p, model)
        fin = np.isfinite(ref_out)
        sc = max(np.abs(ref_out[fin]).max(initial=0.0), 1e-300)
        # non-finite reference entries (a documented singular point of the component) must be non-finite here too
        e = np.abs(o[fin] - ref_out[fin]).max(initial=0.0) / sc if (np.array_equal(np.isfinite(o), fin)) else np.inf
        if not e <= tol:
            viol.append(dict(sig=dict(oracle="history_independence", probe=tag, observable="outputs", model=model.name, after_chk=st["chk"]), msg="%s after history %s: outputs differ from a fresh problem at point %s by %.2e" % (tag, hist, st["k"], e), measure=float(e)))

    def cmp_tot(tag, T=None):
        nonlocal nprobe
        nprobe += 1
        t = totals_vec(p, model, T)
        fin = np.isfinite(ref_tot)
        rt = np.where(fin, ref_tot, 0.0)
        sc = np.maximum(np.abs(rt).max(axis=1, keepdims=True), 1e-9 * max(np.abs(rt).max(), 1e-300))
        if st["chk"]:
            # check_partials leaves forward-difference values (absolute step 1e-6) in sub-Jacobians that were declared constant and
            # the framework never restores them (DESIGN section 2): their round-off error is ~ eps |f_i| / step per entry of row i.
            # Rows whose own scale is below that noise cannot be judged after check_partials.
            # (the perturbed input x + step is itself rounded to eps |x|, so the slope also carries a relative error eps |x| / step)
            fo = np.where(np.isfinite(ref_out), np.abs(ref_out), 0.0).reshape(-1, 1)
            xs = max(float(np.abs(np.asarray(p.get_val(w), dtype=float)).max()) for w in model.wrt)
            if fo.shape[0] == sc.shape[0]:
                sc = np.maximum(sc, 50 * 2.2e-16 * (fo + sc * xs) / 1e-6 / max(tol, 1e-9))
        e = (np.abs(np.where(fin, t, 0.0) - rt) / sc).max() if np.array_equal(np.isfinite(t), fin) else np.inf
        if not e <= max(tol, 1e-9):
            i, j = np.unravel_index(np.argmax(np.abs(np.where(fin, t, 0.0) - rt) / sc), t.shape)
            viol.append(dict(sig=dict(oracle="history_independence", probe=tag, observable="totals", model=model.name, after_chk=st["chk"]), msg="%s after history %s: totals differ from a fresh problem at point %s by %.2e of the row scale (entry [%d,%d]: %.8g vs %.8g)" % (tag, hist, st["k"], e, i, j, t[i, j], ref_tot[i, j]), measure=float(e)))

    if st["consistent"]:
        cmp_out("read")
        if last is not None and tuple(hist[-1])[0] == "tot":
            cmp_tot("totals_returned", last)
        cmp_tot("totals")
    p.run_model()
    cmp_out("rerun_read")
    cmp_tot("rerun_totals")
    return viol, dg, st, nprobe
