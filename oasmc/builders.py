"""Model builders: pure functions from small records to real OpenMDAO problems assembled as the
OpenAeroStruct documentation's run scripts do (DESIGN.md 3.3)."""
import numpy as np
import openmdao.api as om

G0 = 9.80665

FLOW0 = dict(v=248.136, alpha=5.0, beta=0.0, Mach_number=0.3, re=1.0e6, rho=0.38, cg=[0.0, 0.0, 0.0])

_xs = np.linspace(0.1, 0.6, 11)
AIRFOIL = dict(
    data_x_upper=_xs.copy(),
    data_x_lower=_xs.copy(),
    data_y_upper=0.06 * np.sqrt(1 - ((_xs - 0.38) / 0.62) ** 2) - 0.005,
    data_y_lower=-0.05 * np.sqrt(1 - ((_xs - 0.35) / 0.65) ** 2) + 0.004,
)


def aero_surface(name, mesh, sym, **kw):
    s = {
        "name": name,
        "symmetry": bool(sym),
        "S_ref_type": "wetted",
        "mesh": np.array(mesh, dtype=float),
        "CL0": 0.0,
        "CD0": 0.0,
        "k_lam": 0.05,
        "t_over_c_cp": np.array([0.12]),
        "c_max_t": 0.303,
        "with_viscous": False,
        "with_wave": False,
    }
    s.update(kw)
    return s


def struct_surface(name, mesh, sym, model="tube", **kw):
    s = aero_surface(name, mesh, sym)
    s.update(
        {
            "fem_model_type": model,
            "E": 70.0e9,
            "G": 30.0e9,
            "yield": 500.0e6 / 2.5,
            "mrho": 3.0e3,
            "fem_origin": 0.35,
            "wing_weight_ratio": 2.0,
            "struct_weight_relief": False,
            "distributed_fuel_weight": False,
            "exact_failure_constraint": False,
            "CD0": 0.015,
        }
    )
    if model == "tube":
        s["thickness_cp"] = np.array([0.02, 0.02])
    else:
        s.update({k: v.copy() for k, v in AIRFOIL.items()})
        s.update(
            {
                "spar_thickness_cp": np.array([0.006, 0.006]),
                "skin_thickness_cp": np.array([0.012, 0.012]),
                "original_wingbox_airfoil_t_over_c": 0.12,
                "strength_factor_for_upper_skin": 1.0,
                "fuel_density": 803.0,
                "Wf_reserve": 500.0,
                "E": 73.1e9,
                "G": 73.1e9 / 2 / 1.33,
                "yield": 420.0e6 / 1.5,
                "mrho": 2.78e3,
                "wing_weight_ratio": 1.25,
            }
        )
        s.pop("fem_origin", None)
    s.update(kw)
    return s


def _ivc(prob, vals):
    ivc = om.IndepVarComp()
    units = dict(v="m/s", alpha="deg", beta="deg", re="1/m", rho="kg/m**3", cg="m", omega="rad/s", height_agl="m", CT="1/s", R="m", W0="kg", speed_of_sound="m/s", empty_cg="m", S_ref_total="m**2", fuel_mass="kg", point_masses="kg", engine_thrusts="N", point_mass_locations="m")
    for k, v in vals.items():
        ivc.add_output(k, val=np.array(v, dtype=float) if not np.isscalar(v) else float(v), units=units.get(k))
    prob.model.add_subsystem("prob_vars", ivc, promotes=["*"])


def build_aero(surfs, flow=None, rotational=False, compressible=False, with_geom=False, user_sref=None, mode="rev", npoints=1, setup=True):
    """One or more AeroPoint groups named ap / ap1...  Without with_geom the meshes of the surface
    dictionaries are fed directly as def_mesh (set after setup)."""
    from openaerostruct.aerodynamics.aero_groups import AeroPoint
    from openaerostruct.geometry.geometry_group import Geometry

    fl = dict(FLOW0)
    fl.update(flow or {})
    ground = any(s.get("groundplane", False) for s in surfs)
    if ground and "height_agl" not in fl:
        fl["height_agl"] = 8000.0
    if rotational and "omega" not in fl:
        fl["omega"] = [0.0, 0.0, 0.0]
    if user_sref is not None:
        fl["S_ref_total"] = user_sref
    p = om.Problem(reports=False)
    _ivc(p, fl)
    prom = ["v", "alpha", "beta", "Mach_number", "re", "rho", "cg"]
    if ground:
        prom.append("height_agl")
    if rotational:
        prom.append("omega")
    if user_sref is not None:
        prom.append("S_ref_total")
    if with_geom:
        for s in surfs:
            p.model.add_subsystem(s["name"], Geometry(surface=s))
    names = ["ap"] + ["ap%d" % i for i in range(1, npoints)]
    for pn in names:
        p.model.add_subsystem(pn, AeroPoint(surfaces=surfs, rotational=rotational, compressible=compressible, user_specified_Sref=user_sref is not None), promotes_inputs=prom)
        if with_geom:
            for s in surfs:
                n = s["name"]
                p.model.connect(n + ".mesh", pn + "." + n + ".def_mesh")
                p.model.connect(n + ".mesh", pn + ".aero_states." + n + "_def_mesh")
                p.model.connect(n + ".t_over_c", pn + "." + n + "_perf.t_over_c")
    if not setup:
        return p
    p.setup(mode=mode)
    p.set_solver_print(-1)
    if not with_geom:
        for pn in names:
            for s in surfs:
                n = s["name"]
                p.set_val(pn + "." + n + ".def_mesh", s["mesh"])
                p.set_val(pn + ".aero_states." + n + "_def_mesh", s["mesh"])
                p.set_val(pn + "." + n + "_perf.t_over_c", float(np.atleast_1d(s.get("t_over_c_cp", [0.12]))[0]))
    return p


AS_FLOW0 = dict(
    v=248.136,
    alpha=5.0,
    beta=0.0,
    Mach_number=0.84,
    re=1.0e6,
    rho=0.38,
    CT=G0 * 17.0e-6,
    R=11.165e6,
    W0=0.4 * 3e5,
    speed_of_sound=295.4,
    load_factor=1.0,
    empty_cg=[0.0, 0.0, 0.0],
)


def build_aerostruct(surfs, flow=None, npoints=1, compressible=False, rotational=False, mode="rev", user_sref=None, fuel_vol_delta=False, point_flows=None, setup=True, pm=None, cross_fuelburn=False, register=None):
    """AerostructGeometry per surface + AerostructPoint(s) AS_point_0.. wired as in the integration tests.
    point_flows: optional list of per-point overrides {name: value} (gives each point its own IVC vars)."""
    from openaerostruct.integration.aerostruct_groups import AerostructGeometry, AerostructPoint

    fl = dict(AS_FLOW0)
    fl.update(flow or {})
    ground = any(s.get("groundplane", False) for s in surfs)
    if ground and "height_agl" not in fl:
        fl["height_agl"] = 8000.0
    if rotational:
        fl.setdefault("omega", [0.0, 0.0, 0.0])
        fl.setdefault("cg", [0.0, 0.0, 0.0])
    if user_sref is not None:
        fl["S_ref_total"] = user_sref
    has_pm = [s for s in surfs if "n_point_masses" in s]
    fuel = [s for s in surfs if s.get("distributed_fuel_weight")]
    if fuel:
        fl.setdefault("fuel_mass", 1.0e4)
    extra = {}
    for s in has_pm:
        n = s["n_point_masses"]
        pm = pm or {}
        extra.setdefault("point_masses", pm.get("point_masses", [800.0] * n))
        extra.setdefault("engine_thrusts", pm.get("engine_thrusts", [8.0e3] * n))
        extra.setdefault("point_mass_locations", pm.get("point_mass_locations", [[1.0, -2.0, -0.3]] * n))
    p = om.Problem(reports=False)
    per_point = ["v", "alpha", "beta", "Mach_number", "re", "rho", "CT", "R", "W0", "speed_of_sound", "load_factor", "empty_cg"]
    if ground:
        per_point.append("height_agl")
    rot_vals = {k: fl.pop(k) for k in ("omega", "cg") if rotational and k in fl}
    if user_sref is not None:
        per_point.append("S_ref_total")
    vals = {}
    if point_flows is None:
        vals.update(fl)
    else:
        for k, v in fl.items():
            if k in per_point:
                for i in range(npoints):
                    vals["%s_%d" % (k, i)] = point_flows[i].get(k, v)
            else:
                vals[k] = v
    vals.update(extra)
    # _ivc needs units by base name
    ivc = om.IndepVarComp()
    units = dict(v="m/s", alpha="deg", beta="deg", re="1/m", rho="kg/m**3", cg="m", omega="rad/s", height_agl="m", CT="1/s", R="m", W0="kg", speed_of_sound="m/s", empty_cg="m", S_ref_total="m**2", fuel_mass="kg", point_masses="kg", engine_thrusts="N", point_mass_locations="m")
    for k, v in vals.items():
        base = k.rsplit("_", 1)[0] if (point_flows is not None and k.rsplit("_", 1)[-1].isdigit()) else k
        ivc.add_output(k, val=np.array(v, dtype=float) if not np.isscalar(v) else float(v), units=units.get(base))
    p.model.add_subsystem("prob_vars", ivc, promotes=["*"])
    for s in surfs:
        p.model.add_subsystem(s["name"], AerostructGeometry(surface=s))
    c = p.model.connect
    for i in range(npoints):
        pn = "AS_point_%d" % i
        if cross_fuelburn:
            # the documented multipoint pattern: the cruise point's fuel burn sizes the weight used at every flight point
            p.model.add_subsystem(pn, AerostructPoint(surfaces=surfs, compressible=compressible, rotational=rotational, user_specified_Sref=user_sref is not None, internally_connect_fuelburn=False))
            c("AS_point_0.fuelburn", pn + ".total_perf.L_equals_W.fuelburn")
            c("AS_point_0.fuelburn", pn + ".total_perf.CG.fuelburn")
        else:
            p.model.add_subsystem(pn, AerostructPoint(surfaces=surfs, compressible=compressible, rotational=rotational, user_specified_Sref=user_sref is not None))
        for k in per_point:
            src = k if point_flows is None else "%s_%d" % (k, i)
            if k == "omega":
                continue  # set after setup (see below)
            c(src, pn + "." + k)
        if any(s_["struct_weight_relief"] or s_.get("distributed_fuel_weight") or "n_point_masses" in s_ for s_ in surfs):
            # as in the documentation's run scripts: the load factor also drives the inertial loads inside the coupled group
            c("load_factor" if point_flows is None else "load_factor_%d" % i, pn + ".coupled.load_factor")
        for s in surfs:
            n = s["name"]
            com = pn + "." + n + "_perf."
            c(n + ".local_stiff_transformed", pn + ".coupled." + n + ".local_stiff_transformed")
            c(n + ".nodes", pn + ".coupled." + n + ".nodes")
            c(n + ".mesh", pn + ".coupled." + n + ".mesh")
            c(n + ".nodes", com + "nodes")
            c(n + ".cg_location", pn + ".total_perf." + n + "_cg_location")
            c(n + ".structural_mass", pn + ".total_perf." + n + "_structural_mass")
            c(n + ".t_over_c", com + "t_over_c")
            if s["struct_weight_relief"]:
                c(n + ".element_mass", pn + ".coupled." + n + ".element_mass")
            if s["fem_model_type"] == "tube":
                c(n + ".radius", com + "radius")
                c(n + ".thickness", com + "thickness")
            else:
                for q in ("Qz", "J", "A_enc", "htop", "hbottom", "hfront", "hrear", "spar_thickness"):
                    c(n + "." + q, com + q)
            if s.get("distributed_fuel_weight"):
                c(n + ".struct_setup.fuel_vols", pn + ".coupled." + n + ".struct_states.fuel_vols")
                c("fuel_mass", pn + ".coupled." + n + ".struct_states.fuel_mass")
            if "n_point_masses" in s:
                cn = pn + ".coupled." + n
                c("point_masses", cn + ".point_masses")
                c("engine_thrusts", cn + ".engine_thrusts")
                c("point_mass_locations", cn + ".point_mass_locations")
    if fuel_vol_delta:
        from openaerostruct.structures.wingbox_fuel_vol_delta import WingboxFuelVolDelta

        s = surfs[0]
        p.model.add_subsystem("fuel_vol_delta", WingboxFuelVolDelta(surface=s))
        c("AS_point_0.fuelburn", "fuel_vol_delta.fuelburn")
        c(s["name"] + ".struct_setup.fuel_vols", "fuel_vol_delta.fuel_vols")
    if register:
        # responses and design variables registered with the driver, as an optimisation script does
        of, wrt = register
        p.model.add_objective(of[0])
        for o in of[1:]:
            p.model.add_constraint(o, upper=0.0)
        for w in wrt:
            p.model.add_design_var(w)
    if not setup:
        return p
    p.setup(mode=mode)
    p.set_solver_print(-1)
    fl.update(rot_vals)
    if rotational:
        # rotation rate and user-given rotation centre of every point: plain (unconnected) inputs of the states group, addressed
        # by the absolute name of the component input so that the harness does not depend on promotion levels
        for i in range(npoints):
            base = "AS_point_%d.coupled.aero_states.rotational_velocity." % i
            p.set_val(base + "omega", np.array(fl["omega"], dtype=float))
            p.set_val(base + "cg", np.array(fl["cg"], dtype=float))
    return p


def tighten(p, npoints=1, rtol=1e-13, maxiter=500, nl="aitken", lin="direct", atol=1e-8, lin_tol=1e-10):
    """user-level solver settings on the coupled groups (after setup, before run)"""
    for i in range(npoints):
        cp = getattr(p.model, "AS_point_%d" % i).coupled
        if nl == "default":
            # the library's own solver object, only its documented tolerance options changed
            cp.nonlinear_solver.options.update(dict(maxiter=maxiter, atol=atol, rtol=rtol, err_on_non_converge=True, iprint=-1))
        elif nl == "aitken":
            cp.nonlinear_solver = om.NonlinearBlockGS(use_aitken=True, maxiter=maxiter, atol=atol, rtol=rtol, err_on_non_converge=True, iprint=-1)
        elif nl == "aitken_f07":
            # a supported option of the default solver: first relaxation factor below one
            cp.nonlinear_solver = om.NonlinearBlockGS(use_aitken=True, aitken_initial_factor=0.7, maxiter=maxiter, atol=atol, rtol=rtol, err_on_non_converge=True, iprint=-1)
        elif nl == "nlbgs_apply":
            cp.nonlinear_solver = om.NonlinearBlockGS(use_aitken=False, use_apply_nonlinear=True, maxiter=maxiter, atol=atol, rtol=rtol, err_on_non_converge=True, iprint=-1)
        elif nl == "nlbgs":
            cp.nonlinear_solver = om.NonlinearBlockGS(use_aitken=False, maxiter=maxiter, atol=atol, rtol=rtol, err_on_non_converge=True, iprint=-1)
        elif nl == "newton":
            cp.nonlinear_solver = om.NewtonSolver(solve_subsystems=True, maxiter=60, atol=atol, rtol=max(rtol, 1e-12), err_on_non_converge=True, iprint=-1)
            cp.nonlinear_solver.linesearch = None
        if lin == "direct":
            cp.linear_solver = om.DirectSolver(assemble_jac=True)
        elif lin == "lbgs":
            cp.linear_solver = om.LinearBlockGS(maxiter=1000, atol=lin_tol, rtol=lin_tol, err_on_non_converge=True, iprint=-1)
        elif lin == "krylov":
            cp.linear_solver = om.ScipyKrylov(maxiter=1000, atol=lin_tol, rtol=lin_tol, err_on_non_converge=True, iprint=-1)
            cp.linear_solver.precon = om.LinearRunOnce(iprint=-1)
        elif lin == "krylov_plain":
            cp.linear_solver = om.ScipyKrylov(maxiter=2000, atol=1e-30, rtol=1e-13, err_on_non_converge=True, iprint=-1)
    return p


def build_struct(surf, loads=None, mode="rev", load_factor=None, setup=True, pm=None):
    from openaerostruct.structures.struct_groups import SpatialBeamAlone

    p = om.Problem(reports=False)
    ny = surf["mesh"].shape[1]
    ivc = om.IndepVarComp()
    ivc.add_output("loads", val=np.zeros((ny, 6)) if loads is None else np.array(loads, dtype=float), units="N")
    ivc.add_output("load_factor", val=1.0 if load_factor is None else load_factor)
    if surf.get("distributed_fuel_weight"):
        ivc.add_output("fuel_mass", val=1.0e4, units="kg")
    if "n_point_masses" in surf:
        n = surf["n_point_masses"]
        pm = pm or {}
        ivc.add_output("point_masses", val=np.array(pm.get("point_masses", [800.0] * n), dtype=float), units="kg")
        ivc.add_output("engine_thrusts", val=np.array(pm.get("engine_thrusts", [8.0e3] * n), dtype=float), units="N")
        ivc.add_output("point_mass_locations", val=np.array(pm.get("point_mass_locations", [[1.0, -2.0, -0.3]] * n), dtype=float), units="m")
    p.model.add_subsystem("prob_vars", ivc, promotes=["*"])
    p.model.add_subsystem(surf["name"], SpatialBeamAlone(surface=surf), promotes=["*"])
    if surf.get("distributed_fuel_weight"):
        p.model.connect("struct_setup.fuel_vols", "struct_states.fuel_vols")
        p.model.connect("fuel_mass", "struct_states.fuel_mass")
    if not setup:
        return p
    p.setup(mode=mode)
    p.set_solver_print(-1)
    return p


