"""Independent vortex-lattice reference (Katz & Plotkin vortex rings, Biot-Savart law).

Shares no code with OpenAeroStruct.  Has no notion of symmetry or ground effect: symmetric
surfaces are passed as full-span meshes (or as a half plus an explicit mirror-image surface) and
a ground plane as explicit image surfaces carrying their own unknowns.

Conventions: mesh[i, j] with i chordwise (LE -> TE), j spanwise (y increasing).
Unknown ordering: surface by surface, panel (i, j) -> i*(ny-1) + j   (chordwise-major).
"""
import numpy as np

FOURPI = 4.0 * np.pi


def seg(P, A, B):
    """velocity at points P (n,3) induced by a unit-strength straight vortex filament from A to B
    (K&P eq. 10.115):  (r1 x r2)/|r1 x r2|^2 * r0.(r1/|r1| - r2/|r2|) / 4pi"""
    r1 = P - A
    r2 = P - B
    r0 = B - A
    c = np.cross(r1, r2)
    c2 = np.einsum("ij,ij->i", c, c)
    n1 = np.linalg.norm(r1, axis=1)
    n2 = np.linalg.norm(r2, axis=1)
    ok = (c2 > 1e-24 * (n1 * n2) ** 2) & (n1 > 0) & (n2 > 0)
    out = np.zeros_like(P)
    if ok.any():
        k = (r1[ok] / n1[ok, None] - r2[ok] / n2[ok, None]) @ r0 / (FOURPI * c2[ok])
        out[ok] = c[ok] * k[:, None]
    return out


def semi(P, A, u):
    """unit vortex starting at A and going to infinity along the unit vector u"""
    r = P - A
    c = np.cross(u, r)
    c2 = np.einsum("ij,ij->i", c, c)
    n = np.linalg.norm(r, axis=1)
    ok = c2 > 1e-24 * n * n
    out = np.zeros_like(P)
    if ok.any():
        k = (1.0 + (r[ok] @ u) / n[ok]) / (FOURPI * c2[ok])
        out[ok] = c[ok] * k[:, None]
    return out


def vortex_lattice(mesh):
    """ring corner points: bound vortex at the panel quarter chord, last row on the trailing edge"""
    vm = np.empty_like(mesh)
    vm[:-1] = 0.75 * mesh[:-1] + 0.25 * mesh[1:]
    vm[-1] = mesh[-1]
    return vm


def ring_vel(P, vm, i, j, u, last):
    """velocity at P of unit ring (i,j); corners A=(i,j+1) B=(i,j) C=(i+1,j) D=(i+1,j+1), circulation
    A->B->C->D->A.  The ring of the last chordwise row is extended by the wake: a ring whose
    downstream edge is at infinity along u."""
    A = vm[i, j + 1]
    B = vm[i, j]
    C = vm[i + 1, j]
    D = vm[i + 1, j + 1]
    v = seg(P, A, B) + seg(P, B, C) + seg(P, C, D) + seg(P, D, A)
    if last:
        v = v + seg(P, D, C) + semi(P, C, u) - semi(P, D, u)
    return v


def panel_geometry(m):
    nx, ny, _ = m.shape
    cp = np.zeros((nx - 1, ny - 1, 3))
    fp = np.zeros_like(cp)
    bv = np.zeros_like(cp)
    nrm = np.zeros_like(cp)
    for i in range(nx - 1):
        for j in range(ny - 1):
            cp[i, j] = 0.5 * (0.25 * m[i, j] + 0.75 * m[i + 1, j]) + 0.5 * (0.25 * m[i, j + 1] + 0.75 * m[i + 1, j + 1])
            fp[i, j] = 0.5 * (0.75 * m[i, j] + 0.25 * m[i + 1, j]) + 0.5 * (0.75 * m[i, j + 1] + 0.25 * m[i + 1, j + 1])
            bv[i, j] = (0.75 * m[i, j] + 0.25 * m[i + 1, j]) - (0.75 * m[i, j + 1] + 0.25 * m[i + 1, j + 1])
            n = np.cross(m[i, j + 1] - m[i + 1, j], m[i, j] - m[i + 1, j + 1])
            nrm[i, j] = n / np.linalg.norm(n)
    return cp, fp, bv, nrm


def influence(P, meshes, u):
    """(n, N, 3): velocity at each of the points P of unit strength of each ring (wake included)"""
    cols = []
    for m in meshes:
        nx, ny, _ = m.shape
        vm = vortex_lattice(m)
        for i in range(nx - 1):
            for j in range(ny - 1):
                cols.append(ring_vel(P, vm, i, j, u, i == nx - 2))
    return np.stack(cols, axis=1)


def solve(meshes, alpha, beta, v, rho, omega=None, cg=None):
    """returns dict(A, rhs, G, F (per surface list of (nx-1,ny-1,3)), cp, fp, nrm, onset, vind_fp, G_hs)"""
    a = np.radians(alpha)
    b = np.radians(beta)
    u = np.array([np.cos(a), 0.0, np.sin(a)])
    vinf = v * np.array([np.cos(a) * np.cos(b), -np.sin(b), np.sin(a) * np.cos(b)])
    geo = [panel_geometry(m) for m in meshes]
    cp = np.concatenate([g[0].reshape(-1, 3) for g in geo])
    fp = np.concatenate([g[1].reshape(-1, 3) for g in geo])
    bv = np.concatenate([g[2].reshape(-1, 3) for g in geo])
    nrm = np.concatenate([g[3].reshape(-1, 3) for g in geo])
    onset = np.tile(vinf, (len(cp), 1))
    if omega is not None:
        onset = onset + np.cross(np.asarray(omega, float), cp - np.asarray(cg, float))
    W = influence(cp, meshes, u)
    A = np.einsum("pqk,pk->pq", W, nrm)
    rhs = -np.einsum("pk,pk->p", onset, nrm)
    G = np.linalg.solve(A, rhs)
    Wf = influence(fp, meshes, u)
    vind = np.einsum("pqk,q->pk", Wf, G)
    # horseshoe strength = ring - upstream ring of the same surface and spanwise station
    Ghs = G.copy()
    o = 0
    for m in meshes:
        nx, ny, _ = m.shape
        n = (nx - 1) * (ny - 1)
        g = G[o : o + n].reshape(nx - 1, ny - 1)
        gh = g.copy()
        gh[1:] = g[1:] - g[:-1]
        Ghs[o : o + n] = gh.ravel()
        o += n
    F = rho * Ghs[:, None] * np.cross(onset + vind, bv)
    Fs = []
    o = 0
    for m in meshes:
        nx, ny, _ = m.shape
        n = (nx - 1) * (ny - 1)
        Fs.append(F[o : o + n].reshape(nx - 1, ny - 1, 3))
        o += n
    return dict(A=A, rhs=rhs, G=G, Ghs=Ghs, F=Fs, Fflat=F, cp=cp, fp=fp, bv=bv, nrm=nrm, onset=onset, vind_fp=vind, W=W, u=u, vinf=vinf)


def normal_velocity(meshes, G, alpha, beta, v, omega=None, cg=None):
    """residual of the flow-tangency condition for GIVEN ring strengths G (e.g. OAS's own)"""
    a = np.radians(alpha)
    b = np.radians(beta)
    u = np.array([np.cos(a), 0.0, np.sin(a)])
    vinf = v * np.array([np.cos(a) * np.cos(b), -np.sin(b), np.sin(a) * np.cos(b)])
    geo = [panel_geometry(m) for m in meshes]
    cp = np.concatenate([g[0].reshape(-1, 3) for g in geo])
    nrm = np.concatenate([g[3].reshape(-1, 3) for g in geo])
    onset = np.tile(vinf, (len(cp), 1))
    if omega is not None:
        onset = onset + np.cross(np.asarray(omega, float), cp - np.asarray(cg, float))
    W = influence(cp, meshes, u)
    vtot = onset + np.einsum("pqk,q->pk", W, G)
    return np.einsum("pk,pk->p", vtot, nrm)


# ---------------------------------------------------------------- self tests
def _quad_segment(P, A, B, n=20001):
    """numerical Biot-Savart quadrature of a straight unit filament"""
    t = np.linspace(0, 1, n)
    X = A[None, :] + t[:, None] * (B - A)[None, :]
    dl = (B - A) / (n - 1)
    r = P[None, :] - X
    f = np.cross(np.tile(dl, (n, 1)), r) / (np.linalg.norm(r, axis=1) ** 3)[:, None]
    w = np.ones(n)
    w[0] = w[-1] = 0.5
    return (f * w[:, None]).sum(axis=0) / FOURPI


def selftest():
    P = np.array([[0.3, -0.2, 0.7], [1.5, 0.4, -0.3]])
    A = np.array([0.1, 0.2, 0.0])
    B = np.array([1.2, -0.5, 0.3])
    errs = []
    for k in range(2):
        q = _quad_segment(P[k], A, B)
        errs.append(np.abs(seg(P[k : k + 1], A, B)[0] - q).max() / np.abs(q).max())
    # semi-infinite leg = limit of long segment
    u = np.array([np.cos(0.1), 0.0, np.sin(0.1)])
    far = A + 1e7 * u
    errs.append(np.abs(semi(P, A, u) - seg(P, A, far)).max() / np.abs(semi(P, A, u)).max())
    # 2-D limit: very high aspect ratio flat plate, one chordwise panel: Cl = 2 pi alpha (lumped vortex)
    from oasmc.gen import rect_full

    m = rect_full(2, 3, span=4000.0, chord=1.0)
    al = 2.0
    r = solve([m], al, 0.0, 10.0, 1.0)
    Fz = sum(f[..., 2].sum() for f in r["F"])
    Fx = sum(f[..., 0].sum() for f in r["F"])
    a = np.radians(al)
    L = -Fx * np.sin(a) + Fz * np.cos(a)
    cl = L / (0.5 * 1.0 * 100.0 * 4000.0)
    errs.append(abs(cl / (2 * np.pi * np.sin(a)) - 1.0))
    ok = errs[0] < 1e-6 and errs[1] < 1e-6 and errs[2] < 1e-6 and errs[3] < 2e-3
    return ok, dict(segment_vs_quadrature=errs[:2], semi_vs_long=errs[2], cl_2d=errs[3])
