"""Richardson-extrapolated central differences in real arithmetic (DESIGN.md 3.4 / 4.2)."""
import numpy as np

EPS = np.finfo(float).eps


def richardson_col(f, x0, i, h):
    """derivative of vector function f w.r.t. x.flat[i]; three central differences h, h/2, h/4,
    two Richardson levels -> O(h^6).  returns (value, error estimate, max |f|)"""

    def d(hh):
        x = x0.copy()
        x.flat[i] = x0.flat[i] + hh
        a = f(x)
        x.flat[i] = x0.flat[i] - hh
        b = f(x)
        return (a - b) / (2 * hh), np.maximum(np.abs(a), np.abs(b))

    d1, m1 = d(h)
    d2, m2 = d(h / 2)
    d4, m4 = d(h / 4)
    r1 = (4 * d2 - d1) / 3
    r2 = (4 * d4 - d2) / 3
    R = (16 * r2 - r1) / 15
    return R, np.abs(R - r2), np.maximum(np.maximum(m1, m2), m4)


def jacobian(f, x0, hrel=1e-3, hscale=None, noise_rel=50 * EPS):
    """dense Jacobian (value, error estimate, roundoff floor) of f at x0; step h = hrel * scale of
    the WHOLE input array (stiffness entries span 1e0..1e9)"""
    x0 = np.array(x0, dtype=float)
    f0 = np.asarray(f(x0.copy()), dtype=float).ravel()
    sc = hscale if hscale is not None else max(np.max(np.abs(x0), initial=0.0), 1e-8)
    h = hrel * (sc if sc > 0 else 1.0)
    J = np.zeros((f0.size, x0.size))
    E = np.zeros_like(J)
    floor = np.zeros_like(J)  # round-off floor of the difference quotient, per entry (row = output magnitude)
    for i in range(x0.size):
        J[:, i], E[:, i], fm = richardson_col(lambda x: np.asarray(f(x), dtype=float).ravel(), x0, i, h)
        floor[:, i] = noise_rel * fm / (h / 4)
    return J, E, floor, h


def compare(an, J, E, floor, rtol=1e-6):
    """acceptance rule of DESIGN 4.2.  returns (bad mask, unreliable mask, row scale, relative error)"""
    S = np.abs(J).max(axis=1, keepdims=True) if J.size else np.zeros((J.shape[0], 1))
    glob = np.abs(J).max(initial=0.0)
    S = np.maximum(S, 1e-9 * glob)
    S = np.maximum(S, 1e-300)
    tol = rtol * S + 20 * E + (floor if np.ndim(floor) == 2 else floor[None, :]) + 1e-14 * max(glob, 1e-300)
    unrel = E > 1e-3 * S
    err = np.abs(an - J)
    bad = (err > tol) & ~unrel
    return bad, unrel, S, err / S


def selftest():
    x0 = np.array([0.7, 1.3, -0.4])

    def f(x):
        return np.array([np.exp(x[0]) * x[1], x[0] ** 5 - x[2] ** 3, 1.0 / x[1] + np.sin(x[2])])

    an = np.array([[np.exp(0.7) * 1.3, np.exp(0.7), 0], [5 * 0.7 ** 4, 0, -3 * 0.16], [0, -1 / 1.69, np.cos(-0.4)]])
    J, E, fl, h = jacobian(f, x0)
    bad, unrel, S, rel = compare(an, J, E, fl)
    an2 = an.copy()
    an2[0, 1] *= 1.0001
    bad2, _, _, _ = compare(an2, J, E, fl)
    return (not bad.any()) and (not unrel.any()) and bad2[0, 1] and bad2.sum() == 1, dict(max_rel=float(rel.max()))
