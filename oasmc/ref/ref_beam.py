"""Independent 3-D Euler-Bernoulli frame (Przemieniecki 12x12 element), dense assembly, clamp by
DOF elimination.  Shares no code with OpenAeroStruct."""
import numpy as np


def element_k(L, EA, GJ, EIy, EIz):
    """local dofs per node: u v w rx ry rz; local x along the element.
    bending in the local x-y plane (v, rz) uses Iz, in the x-z plane (w, ry) uses Iy"""
    k = np.zeros((12, 12))
    for a, b, val in [(0, 0, EA / L), (0, 6, -EA / L), (6, 6, EA / L), (3, 3, GJ / L), (3, 9, -GJ / L), (9, 9, GJ / L)]:
        k[a, b] = val
        k[b, a] = val

    def kb(EI):
        return np.array(
            [
                [12 * EI / L**3, 6 * EI / L**2, -12 * EI / L**3, 6 * EI / L**2],
                [6 * EI / L**2, 4 * EI / L, -6 * EI / L**2, 2 * EI / L],
                [-12 * EI / L**3, -6 * EI / L**2, 12 * EI / L**3, -6 * EI / L**2],
                [6 * EI / L**2, 2 * EI / L, -6 * EI / L**2, 4 * EI / L],
            ]
        )

    idx = [1, 5, 7, 11]
    kk = kb(EIz)
    for a in range(4):
        for b in range(4):
            k[idx[a], idx[b]] += kk[a, b]
    idx = [2, 4, 8, 10]
    S = np.diag([1.0, -1.0, 1.0, -1.0])
    kk = S @ kb(EIy) @ S
    for a in range(4):
        for b in range(4):
            k[idx[a], idx[b]] += kk[a, b]
    return k


def local_axes(P0, P1):
    """x' along the element, y' = x' cross global x (normalised), z' = x' cross y'"""
    L = np.linalg.norm(P1 - P0)
    x = (P1 - P0) / L
    y = np.cross(x, [1.0, 0.0, 0.0])
    y /= np.linalg.norm(y)
    z = np.cross(x, y)
    return L, np.array([x, y, z])


def assemble(nodes, A, Iy, Iz, J, E, G):
    n = len(nodes)
    K = np.zeros((6 * n, 6 * n))
    for e in range(n - 1):
        L, R = local_axes(nodes[e], nodes[e + 1])
        T = np.zeros((12, 12))
        for k in range(4):
            T[3 * k : 3 * k + 3, 3 * k : 3 * k + 3] = R
        ke = element_k(L, E * A[e], G * J[e], E * Iy[e], E * Iz[e])
        d = np.r_[6 * e : 6 * e + 12]
        K[np.ix_(d, d)] += T.T @ ke @ T
    return K


def solve(nodes, A, Iy, Iz, J, loads, E, G, clamp):
    n = len(nodes)
    K = assemble(nodes, A, Iy, Iz, J, E, G)
    free = [i for i in range(6 * n) if i // 6 != clamp]
    u = np.zeros(6 * n)
    u[free] = np.linalg.solve(K[np.ix_(free, free)], np.asarray(loads, float).ravel()[free])
    return u.reshape(n, 6), K


def selftest():
    # straight cantilever along y, clamp at node 0, tip load: PL^3/3EI, TL/GJ, PL/EA
    n = 4
    L = 3.0
    nodes = np.zeros((n, 3))
    nodes[:, 1] = np.linspace(0, L, n)
    E, G = 70e9, 30e9
    A = np.full(n - 1, 2e-3)
    Iy = np.full(n - 1, 3e-6)
    Iz = np.full(n - 1, 5e-6)
    J = np.full(n - 1, 7e-6)
    errs = {}
    f = np.zeros((n, 6))
    f[-1, 2] = 1e3  # z load -> bends about the local axis whose inertia is ... either Iy or Iz
    u, _ = solve(nodes, A, Iy, Iz, J, f, E, G, 0)
    cand = [1e3 * L**3 / (3 * E * I) for I in (3e-6, 5e-6)]
    errs["bend_z"] = min(abs(u[-1, 2] / c - 1) for c in cand)
    f = np.zeros((n, 6))
    f[-1, 1] = 1e3
    u, _ = solve(nodes, A, Iy, Iz, J, f, E, G, 0)
    errs["axial"] = abs(u[-1, 1] / (1e3 * L / (E * 2e-3)) - 1)
    f = np.zeros((n, 6))
    f[-1, 4] = 1e3
    u, _ = solve(nodes, A, Iy, Iz, J, f, E, G, 0)
    errs["torsion"] = abs(u[-1, 4] / (1e3 * L / (G * 7e-6)) - 1)
    ok = all(v < 1e-9 for v in errs.values())
    return ok, errs
