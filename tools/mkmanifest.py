#!/venv/bin/python
"""Regenerates /verif/MANIFEST.json from the check modules present in oasmc/checks."""
import importlib
import json
import os
import sys

sys.path.insert(0, "/verif")
sys.path.insert(0, "/repo")
ROOT = "/verif"
props = [json.loads(l) for l in open(os.path.join(ROOT, "properties.jsonl"))]
checks, na = [], []
for p in props:
    pid = p["id"]
    f = os.path.join(ROOT, "oasmc", "checks", pid.lower() + ".py")
    if not os.path.exists(f):
        na.append(dict(property_id=pid, reason="check not built yet in this tree (design in DESIGN.md section 6); not claimed until it runs"))
        continue
    m = importlib.import_module("oasmc.checks." + pid.lower())
    checks.append(
        dict(
            property_id=pid,
            quick_cmd="./check %s" % pid,
            thorough_cmd="./check %s --tier thorough" % pid,
            evidence_file="evidence/%s.json" % pid,
            replay_cmd_template="./check %s --replay {path}" % pid,
            engine=getattr(m, "ENGINE", "L"),
            level_claimed=dict(
                category="model_checking",
                text=getattr(m, "LEVEL_TEXT", "Bounded exhaustive exploration on the real implementation: " + m.RULE),
                design_ref="DESIGN.md section 6, %s" % pid,
            ),
            level_note="; ".join(m.ASSUMPTIONS) + ". Bounds: " + json.dumps(getattr(m, "BOUND", "")),
            technique=getattr(m, "TECHNIQUE", "explicit-state bounded exhaustive enumeration of the configuration/input lattice on the real code, each state judged against an independent reference model"),
        )
    )
man = dict(
    version=1,
    setup_cmd="./check --selftest",
    hooks=dict(
        guard="MDOLAB_OPENAEROSTRUCT_VERIF",
        enable="no source hooks: checks import /repo's working tree via PYTHONPATH=/repo (set by ./check); the guard variable is exported but nothing in /repo reads it",
        baseline_off_cmd="cd /repo && env -u MDOLAB_OPENAEROSTRUCT_VERIF /venv/bin/python -m pytest -ra -q -p no:cacheprovider --timeout=900 --continue-on-collection-errors",
        source_commits=[],
        add_only=True,
    ),
    engines=[
        dict(name="L", path="oasmc/engine.py", serves_properties=[c["property_id"] for c in checks if c["engine"] == "L"], kind_free_text="exhaustive lattice explorer: complete Cartesian product of finite axes, each state executed on the real implementation in a process pool, oracle = independent reference model or differential identity"),
        dict(name="H", path="oasmc/history.py", serves_properties=[c["property_id"] for c in checks if c["engine"] != "L"], kind_free_text="explicit-state history explorer: BFS over operation sequences on live Problems with state-digest pruning; all interleavings of independent Problems"),
    ],
    checks=checks,
    notes="All checks: exit 0 = held on everything explored, exit 1 + VIOLATION line = new violation (replay file written and re-executed in a fresh process first), exit 2 = machinery failure. known_findings.json lists recorded genuine defects (printed as KNOWN-FINDING).",
    not_applicable=na,
)
json.dump(man, open(os.path.join(ROOT, "MANIFEST.json"), "w"), indent=1)
print("checks:", [c["property_id"] for c in checks], "not claimed:", [n["property_id"] for n in na])
