#!/venv/bin/python
"""writes the committed minimal replay records used by tests/test_replays.py (one per finding)"""
import importlib, json, os, sys
sys.path[:0] = ["/repo", "/verif"]
def first(cid, tier, pred):
    m = importlib.import_module("oasmc.checks." + cid.lower())
    if hasattr(m, "levels"):
        return None
    st = m.states(tier, 0)
    st = st[0] if isinstance(st, tuple) else st
    for s in st:
        if pred(s):
            return s
    raise SystemExit("no state for %s" % cid)
R = {
 "F1": ("C01", first("C01","quick",lambda s: s["comp"]=="Taper" and s["kind"]=="special"), "clean"),
 "F13": ("C01", first("C01","quick",lambda s: s["comp"]=="ViscousDrag" and s["cfg"].get("k_lam")==1.0), "clean"),
 "F16": ("C01", first("C01","quick",lambda s: s["comp"]=="WingboxFuelVolDelta" and s["cfg"]["side"]=="left"), "known:F16"),
 "F2": ("C03", dict(level="comp", idx=0, comp="MomentCoefficient", mode="rev", fam=0, hist=[["goto",0],["tot"],["goto",1],["tot"]]), "clean"),
 "F4": ("C04", first("C04","quick",lambda s: s["part"]=="aero" and s["wave"] and s["M"]>0.8 and s["sset"]=="wing"), "known:F4"),
 "F5": ("C04", first("C04","quick",lambda s: s["part"]=="aero" and s["sset"]=="wing_offplane" and not s["wave"]), "known:F5"),
 "F6": ("C06", first("C06","thorough",lambda s: s["tr"]==["k",1e4]), "clean"),
 "F7a": ("C07", first("C07","quick",lambda s: s["part"]=="geom" and s["dv"]=="sweep" and s["val"]==20.0 and s["pf"]=="swept"), "known:F7a"),
 "F8": ("C07", first("C07","quick",lambda s: s["part"]=="selfsym" and s["model"]=="wingbox"), "clean"),
 "F9": ("C13", first("C13","quick",lambda s: s["part"]=="vars" and s["pf"]=="camber" and s["dvs"]=={}), "known:F9"),
 "F10": ("C14", first("C14","quick",lambda s: s["part"]=="multi" and s["nsec"]==3 and s["root"]==0 and s["sweep"]>0), "clean"),
 "F15": ("C14", first("C14","quick",lambda s: s["part"]=="multi" and s["nsec"]==1), "clean"),
 "F11": ("C17", first("C17","quick",lambda s: s["part"]=="atmos" and s["h"]==19000.0), "clean"),
 "F14": ("C10", first("C10","quick",lambda s: s["part"]=="frame" and s["side"]=="right"), "clean"),
}
for fid,(cid,state,exp) in R.items():
    json.dump(dict(finding=fid, property=cid, state=state, expect=exp), open("/verif/tests/replays/%s.json"%fid,"w"), indent=1, default=float)
print(sorted(R))
