#!/bin/bash
# tools/collect_mutant.sh <id> [checks...] - copies a sub-agent's result from its scratch worktree /tmp/wt/<id> into
# /verif/seeded/<id>/ and runs the named quick checks against that worktree (OASMC_REPO); /repo is not touched
ID=$1; shift; WT=/tmp/wt/$ID; D=/verif/seeded/$ID
mkdir -p $D
git -C $WT diff -- openaerostruct > $D/patch.diff
cp $WT/demo.py $WT/MUTANT.md $D/ 2>/dev/null
echo "patch: $(grep -c '^[-+][^-+]' $D/patch.diff) changed lines in $(grep -c '^diff' $D/patch.diff) file(s)"
cd /verif
for c in "$@"; do
  out=$(OASMC_REPO=$WT ./check $c --tier quick --no-confirm 2>&1); rc=$?
  echo "$c rc=$rc violations=$(echo "$out" | grep -c '^VIOLATION') :: $(echo "$out" | grep -m1 'violation (' | cut -c1-260)"
done
