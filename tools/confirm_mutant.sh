#!/bin/bash
# tools/confirm_mutant.sh <id>  - independent confirmation of a seeded change kept under /verif/seeded/<id>:
#   scratch worktree of /repo HEAD; patch applies; demo exits 1 with it; baseline suite still passes with it;
#   demo exits 0 without it.  Appends to seeded/<id>/confirm.log and removes the worktree.
ID=$1; D=/verif/seeded/$ID
WT=$(mktemp -d /tmp/oas_conf_XXXX); rmdir $WT
git -C /repo worktree add -q --detach $WT HEAD || exit 2
trap 'git -C /repo worktree remove --force $WT' EXIT
{
echo "== $(date -u +%FT%TZ) confirm $ID against /repo $(git -C /repo log --format=%h -1)"
git -C $WT apply $D/patch.diff && echo "patch applies: yes" || { echo "patch applies: NO"; exit 1; }
ORIG=$(grep -o '/tmp/wt/[a-z0-9_]*' $D/demo.py | head -1)
sed "s|${ORIG:-/nonexistent}|$WT|g" $D/demo.py > $WT/demo.py
( cd $WT && PYTHONPATH=$WT OPENMDAO_REPORTS=0 timeout 1800 /venv/bin/python ${PYWARN--W ignore} demo.py > $WT/demo_with.out 2>&1 ); rc1=$?
echo "demo with change: exit $rc1 (expected 1) :: $(tail -2 $WT/demo_with.out | tr '\n' ' ' | cut -c1-300)"
/verif/tools/baseline.sh $WT 2>&1 | grep -v condarc | tail -4
git -C $WT checkout -q -- openaerostruct
( cd $WT && PYTHONPATH=$WT OPENMDAO_REPORTS=0 timeout 1800 /venv/bin/python ${PYWARN--W ignore} demo.py > $WT/demo_without.out 2>&1 ); rc0=$?
echo "demo without change: exit $rc0 (expected 0) :: $(tail -1 $WT/demo_without.out | cut -c1-200)"
} 2>&1 | tee -a $D/confirm.log
