#!/venv/bin/python
"""writes seeded/<id>/meta.json from the table below + the measured matrix/confirm logs"""
import json, os, re
T = {
 "c01a": ("C01", "WaveDrag.compute_partials: reset of d CDw/d Mach_number dropped", "same component linearised above and then below the crest-critical Mach number; derivative w.r.t. Mach inspected", "C01 missed it at first (both linearisations of a state were on the same side of the onset); the second generic point now lies on the other side"),
 "c03a": ("C03", "identical change to c01a, produced independently for C03", "as c01a", "duplicate of c01a"),
 "c02a": ("C02", "FEM.solve_linear reverse branch: '+=' instead of '='", "aerostructural model + iterative linear solver (LinearBlockGS / Krylov) on the coupled group + reverse mode", "C02 first classified the resulting linear non-convergence as an inadmissible cell; now a violation when plain nonlinear block Gauss-Seidel converges"),
 "c04a": ("C04", "FuelLoads: reserve fuel halved also for full-span surfaces", "wingbox + distributed fuel + non-zero reserve + symmetry=False", "caught at once by C04 and C16; its demo also compared the KS failure aggregate, which only agreed on the original tree because of defect F8 - that line was removed"),
 "c05a": ("C05", "RotationalVelocity: early return when omega == 0 without writing the output", "rotational=True, same Problem run with non-zero and then exactly zero omega", "missed at first: C03 now has a rotational AeroPoint model and zero-valued special points for every component"),
 "c05b": ("C05", "HorseshoeCirculations offset '=' instead of '+=' (same as c19a)", "three or more surfaces, third with nx>=3", "duplicate of c19a"),
 "c07a": ("C07", "ComputePointMassLoads zeroes the loads of the LAST node", "full-span structure with a point mass in the outermost right bay", "C07's structural reflection part had no point masses at first (C16 caught it); added"),
 "c10a": ("C10", "FEM sparsity pattern cached at module level, keyed (ny, symmetry)", "two symmetric beams of equal ny and opposite handedness built in one process", "first seen only through worker history (engine then exited 2); engine now replays with the worker prefix, C10 has a sequence part, C20 a fresh-process pair part"),
 "c11a": ("C11", "LoadTransfer: fem_origin 0.0 replaced by the default 0.35 ('x or default')", "tube surface with fem_origin exactly 0", "caught at once (0 is in the spar-location alphabet)"),
 "c12a": ("C12", "StructureWeightLoads caches on (element_mass, nodes), ignoring load_factor", "weight relief, same Problem analysed twice with only the flight condition changed", "missed at first: every design point also changed the twist; P1 now differs from P0 in the flight condition only (C12, C03)"),
 "c16a": ("C16", "ComputeThrustLoads: early return for all-zero thrust without resetting the output", "point masses, non-zero thrust followed by all-zero thrust on the same Problem", "missed at first: C03 now has a point-mass/fuel aerostructural model with an all-zero point and covers every component"),
 "c19a": ("C19", "HorseshoeCirculations offset '=' instead of '+='", "three or more surfaces, third with nx>=3", "caught by C19 at once; C05 had three surfaces only in the thorough tier - now also quick"),
 "c20a": ("C20", "EvalVelMtx.surface_indices_repeated made a class attribute", "two Problems with a symmetric surface of the SAME name and different size; B set up between A's setup and A's linearisation", "missed at first: the interleaving pairs used different surface names; added same-name/different-size pair"),
 "c06b": ("C06", "ViscousDrag fully laminar branch uses re instead of re*chord", "with_viscous, k_lam = 1.0, length scaling", "missed at first: C06 only used k_lam = 0.05; laminar-fraction axis {0.05, 1, 0} added"),
 "c08b": ("C08", "VortexMesh ground-effect image rows use the wrong slice (broadcast of the trailing edge)", "ground effect with nx >= 3", "caught at once by C08, C04, C01"),
 "c09b": ("C09", "RotateToWindFrame: identity shortcut when alpha == 0 (forgets sideslip)", "compressible, alpha exactly 0, beta non-zero", "caught at once (alpha = 0 and beta != 0 are in the alphabet)"),
 "c13b": ("C13", "GeometryMesh: ref_axis_pos 0.0 replaced by 0.25 ('x or default')", "ref_axis_pos exactly 0 and an active taper/chord/twist", "caught at once"),
 "c14b": ("C14", "multi-section right wing: inboard chord read from the root section", ">= 2 sections right of the root, tapered section in between", "caught at once"),
 "c15b": ("C15", "VonMisesTube skips elements whose end displacements are identical (no reset)", "same Problem: loaded field, then a field with identical end-node rows", "caught at once (C15 evaluates its field families on one live component)"),
 "c17b": ("C17", "AtmosComp caches on altitude; v = M a inside the cached block", "same Problem, same altitude, different Mach number", "caught through problem reuse between states; made deterministic by an explicit Mach change at fixed altitude inside each state"),
 "c18b": ("C18", "WaveDrag: no write of CDw at/below Mcrit for non-symmetric surfaces", "full-span, same Problem evaluated above and then below the onset", "caught at once (the ladders run on one live component)"),
 "c01b": ("C01", "VortexMesh.setup: mesh index map not reversed for right-half meshes (no ground plane)", "symmetric right-half mesh without ground plane", "caught at once"),
 "c02b": ("C02", "ComputePointMassLoads: np.abs kills the complex-step derivative of the spanwise distance", "point mass between two nodes; totals w.r.t. point_mass_locations / span", "caught at once by C02 and C01"),
 "c19c": ("C19", "DemuxSurfaceMesh reverse product writes into blocks whose start forgets the cumulative sum", "three or more surfaces, reverse mode, MPhys wrapper", "caught at once (C19 basis enumeration of the (de)multiplexers for 1-3 surfaces, fwd and rev)"),
 "c08c": ("C08", "VortexMesh: ground-plane point accumulates h*n per ground-effect surface", "ground effect on two or more surfaces", "caught at once (two-surface ground-effect sets)"),
 "c14c": ("C14", "getFullMesh(left_mesh=...) negates z as well as y", "half mesh with non-zero z (CRM wind-tunnel shape, z offset)", "caught at once (CRM:alpha_2.75 and offsets in the lattice)"),
 "c16c": ("C16", "FuelLoads halves the reserve fuel for full-span surfaces too (same as c04a, produced independently)", "full-span wingbox, distributed fuel, non-zero reserve", "caught at once by C16 and C04"),
 "c20c": ("C20", "generate_mesh rejects an even num_y only for the rect wing", "CRM wing types with even num_y", "caught at once (the rejection lattice crosses num_y with both wing types)"),
 "c12c": ("C12", "LoadTransfer honours a fem_origin key for wingbox dictionaries (nodes do not)", "wingbox surface dictionary that also carries fem_origin", "missed at first; C11 now has a wingbox dictionary with the key and takes the node line from ComputeNodes"),
 "c10c": ("C10", "Transform: reference axis switched to z for elements with |dx| > |dy|", "sweep beyond 45 degrees (or steep winglet) and Iy != Iz", "missed at first; C10 now has 60-degree swept and winglet layouts"),
 "c02c": ("C02", "SolveMatrix.solve_linear reverse branch '+='", "aerostructural model, LinearBlockGS/Krylov on the coupled group, reverse mode", "caught (C02 linear-solver oracle introduced after c02a)"),
 "c07c": ("C07", "full-span Taper interpolates with the left tip for both sides", "full-span mesh with unequal semi-spans and taper != 1", "missed at first; C07 now reflects Geometry-group results on full-span meshes with unequal semi-spans"),
 "c13c": ("C13", "full-span Taper break points at +-span instead of +-span/2", "full-span surface with taper != 1", "caught at once"),
 "c04c": ("C04", "VonMisesWingbox: inboard end chosen once per surface (undoes fix F8 for full-span wings)", "full-span wingbox, stresses on the +y half", "caught by C07 (C04 only compares the modelled half, as its statement says)"),
 "c11c": ("C11", "LoadTransfer moments from lumped mesh-row forces with a wrong slice for interior rows", "nx >= 4", "C11 quick had nx <= 3 (thorough had 4); nx = 4 moved into the quick tier"),
 "c03b": ("C03", "CreateRHS leaves entries below the threshold unwritten", "a load component non-zero earlier and (near) zero now on the same Problem", "caught at once (C03 zero-valued special point; C10 unit loads)"),
 "c09d": ("C09", "CompressibleVLMStates (rotational): rotational velocity evaluated at the force points instead of the collocation points", "compressible=True, rotational=True, non-zero omega", "caught at once by C09 (compressible vs incompressible at Mach 0 with rotation)"),
 "c18d": ("C18", "ViscousDrag fully laminar branch subtracts the turbulent transition term (CDv negative, grows with Re)", "with_viscous, k_lam = 1.0", "caught at once by C18 and C01 (laminar-fraction axis introduced after c06b)"),
 "c15d": ("C15", "VonMisesWingbox combination 3: upper-skin strength factor only divides the direct stress", "wingbox with strength_factor_for_upper_skin != 1 and non-zero torsion/shear", "caught at once"),
 "c06d": ("C06", "LiftDrag: side-force contribution to drag with the wrong sign (value and partials consistent)", "beta != 0 and a surface with non-zero summed side force", "caught at once (sideslip and asymmetric/dihedral wings in the lattice)"),
 "c05d": ("C05", "EvalVelMtx right-half re-ordering also reverses the chordwise panel axis", "symmetric RIGHT-half mesh with nx >= 3", "caught at once (right halves in the lattice, independent vortex-ring reference)"),
 "c16d": ("C16", "StructuralCG: y of the cg forced to zero for full-span surfaces too", "full-span structure that is not mirror symmetric in mass", "caught at once"),
 "c17d": ("C17", "Equilibrium: residual normalised by |W| (smoothed) instead of W", "negative load factor", "caught at once (load factor -1 is in the alphabet)"),
 "c20d": ("C20", "unify_mesh shifts a VIEW of the user's first section mesh in place", ">= 3 sections, user-supplied section meshes, shift_uni_mesh=True, leading edges of sections 0/1 not coincident", "missed at first: C20 had no multi-section workflow among its admissible configurations, took its snapshot of the user's arrays after the model was built and only looked at top-level arrays; now every array reachable from the dictionaries is copied before the first library call, and the multi-section workflow (1-4 sections, user/generated meshes, aligned/offset, shift on/off) is part of the menu"),
 "c01d": ("C01", "EvalVelMtx.compute_partials: rear-filament derivative of interior rows uses row 0 (broadcast)", "nx >= 4 (an interior chordwise panel row)", "missed by the quick tier at first (nx <= 3; the thorough tier had nx = 4): one nx = 4 configuration per component moved into the quick tier"),
 "c03d": ("C03", "RotateToWindFrame.compute_partials returns early when alpha is unchanged (forgets beta)", "compressible model, two linearisations with the same alpha and different beta", "missed at first: no design point of any history differed from its predecessor in ONE input only; C03 now has, for every model and every input, the history linearise at P0 / move only that input / linearise, and a compressible full-span sideslip model"),
 "c01e": ("C01", "RadiusComp: declared column pattern of d radius/d mesh points at chordwise row 1 instead of the trailing-edge row", "tube model with nx >= 3", "missed at first: the structural component cases of C01 all used nx = 2 meshes; the mesh-reading structural components (ComputeNodes, RadiusComp, WingboxGeometry) now have nx in {2,3,4}; C02 has an nx = 3 right-half tube state"),
 "c02e": ("C02", "FEM.solve_linear zeroes the solution on the re-derived 'clamped' node (last node if symmetric) - wrong for right-half meshes", "symmetric RIGHT-half mesh and totals through FEM.solve_linear (struct alone, or LinearBlockGS/Krylov on the coupled group)", "missed at first: C02 only had left-half symmetric meshes; right-half + nx = 3 states added for struct-alone and aerostructural models with all three linear solvers"),
 "c04e": ("C04", "MomentCoefficient: MAC doubling decided by the symmetry flag of the LAST surface", "two or more surfaces, first and last with different symmetry settings", "C17/C19 caught it after the mixed-symmetry lists added for c17e; C04 missed it: the wing+tail set is now also analysed with only one of the two surfaces modelled as a half"),
 "c06e": ("C06", "TotalLiftDrag: aircraft CD is the unweighted mean of the surface CDs", "two surfaces of different area and CD", "caught at once by C06 and C17"),
 "c07e": ("C07", "RotationalVelocity written in reversed spanwise order for meshes biased towards +y", "rotational=True, non-zero omega, right-half mesh or full-span mesh with a longer right semi-span", "caught at once by C07 and C05"),
 "c10e": ("C10", "Transform: local reference axis switched to z for elements whose x direction cosine exceeds 0.8", "element swept beyond ~53 degrees and Iy != Iz", "caught at once (60-degree swept and winglet layouts added after c10c)"),
 "c11e": ("C11", "mphys get_src_indices: offset of the third surface forgets the cumulative sum", "three or more surfaces through the MPhys export chain (MuxSurfaceForces / AeroMesh / DemuxSurfaceMesh)", "C19 caught it; C11 missed it (only MeshPointForces alone was checked): C11 now checks force and moment of the exported (coordinates, nodal forces) pair for every ordered selection of 1-3 surfaces"),
 "c12e": ("C12", "ComputePointMassLoads: module-level cache keyed on the surface dictionary and layout, load_factor forgotten", "point masses, two flight points sharing the surface dictionary with different load factors (or load factor changed between runs)", "C03 caught it (single-input-change histories added after c03d); C12 missed it: C12 now has a point-mass configuration and compares every point of a multipoint model with the single-point analysis, both orders"),
 "c16e": ("C16", "ComputeThrustLoads: pitching-moment column assigned instead of accumulated", "two or more engines with a vertical offset from the beam", "caught at once"),
 "c17e": ("C17", "MomentCoefficient: x/z zeroing of a symmetric surface applied to the running total", "full-span surface listed before a symmetric one, non-zero roll/yaw moment on the former", "missed at first: all surface lists had one symmetry setting; C17 and C19 now have mixed lists (full first / half first)"),
 "c19e": ("C19", "HorseshoeCirculations: offset of the next surface advances by one panel row only", "two surfaces, a non-last one with nx >= 3", "caught at once by C19 and C05"),
}
root = "/verif/seeded"
for m, (prop, what, needs, note) in T.items():
    d = os.path.join(root, m)
    if not os.path.isdir(d):
        continue
    caught, ran = [], []
    mp = os.path.join(d, "matrix.txt")
    if os.path.exists(mp):
        for l in open(mp):
            k = re.match(r"(C\d+) rc=(\d+) violations=(\d+)", l)
            if k and k.group(2) == "1":
                caught.append(k.group(1))
        ran.append("tools/try_mutant.sh seeded/%s/patch.diff quick  (all 20 quick checks against a scratch worktree of /repo HEAD with the patch applied)" % m)
    cp = os.path.join(d, "confirm.log")
    conf = open(cp).read().strip().splitlines() if os.path.exists(cp) else []
    ran.append("tools/confirm_mutant.sh %s  (scratch worktree: patch applies; demo exits 1 with it; tools/baseline.sh: all 174 baseline tests pass with it; demo exits 0 without it)" % m)
    json.dump(dict(id=m, breaks_property=prop, change=what, needs_to_manifest=needs, detected_by_quick_checks=caught, history=note, what_i_ran=ran, confirmation_log=conf[-5:]), open(os.path.join(d, "meta.json"), "w"), indent=1)
print("meta written for", [m for m in T if os.path.isdir(os.path.join(root, m))])
