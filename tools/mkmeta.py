#!/venv/bin/python
"""writes seeded/<id>/meta.json from the table below + the measured matrix/confirm logs"""
import json, os, re
T = {
 "c01a": ("C01", "WaveDrag.compute_partials: reset of d CDw/d Mach_number dropped", "same component linearised above and then below the crest-critical Mach number; derivative w.r.t. Mach inspected", "C01 missed it at first (both linearisations of a state were on the same side of the onset); the second generic point now lies on the other side"),
 "c03a": ("C03", "identical change to c01a, produced independently for C03", "as c01a", "duplicate of c01a"),
 "c02a": ("C02", "FEM.solve_linear reverse branch: '+=' instead of '='", "aerostructural model + iterative linear solver (LinearBlockGS / Krylov) on the coupled group + reverse mode", "C02 first classified the resulting linear non-convergence as an inadmissible cell; now a violation when plain nonlinear block Gauss-Seidel converges"),
 "c04a": ("C04", "FuelLoads: reserve fuel halved also for full-span surfaces", "wingbox + distributed fuel + non-zero reserve + symmetry=False", "caught at once by C04 and C16; its demo also compared the KS failure aggregate, which only agreed on the original tree because of defect F8 - that line was removed"),
 "c05a": ("C05", "RotationalVelocity: early return when omega == 0 without writing the output", "rotational=True, same Problem run with non-zero and then exactly zero omega", "missed at first: C03 now has a rotational AeroPoint model and zero-valued special points for every component"),
 "c05b": ("C05", "HorseshoeCirculations offset '=' instead of '+=' (same as c19a)", "three or more surfaces, third with nx>=3", "duplicate of c19a"),
 "c07a": ("C07", "ComputePointMassLoads zeroes the loads of the LAST node", "full-span structure with a point mass in the outermost right bay", "C07's structural reflection part had no point masses at first (C16 caught it); added"),
 "c10a": ("C10", "FEM sparsity pattern cached at module level, keyed (ny, symmetry)", "two symmetric beams of equal ny and opposite handedness built in one process", "first seen only through worker history (engine then exited 2); engine now replays with the worker prefix, C10 has a sequence part, C20 a fresh-process pair part"),
 "c11a": ("C11", "LoadTransfer: fem_origin 0.0 replaced by the default 0.35 ('x or default')", "tube surface with fem_origin exactly 0", "caught at once (0 is in the spar-location alphabet)"),
 "c12a": ("C12", "StructureWeightLoads caches on (element_mass, nodes), ignoring load_factor", "weight relief, same Problem analysed twice with only the flight condition changed", "missed at first: every design point also changed the twist; P1 now differs from P0 in the flight condition only (C12, C03)"),
 "c16a": ("C16", "ComputeThrustLoads: early return for all-zero thrust without resetting the output", "point masses, non-zero thrust followed by all-zero thrust on the same Problem", "missed at first: C03 now has a point-mass/fuel aerostructural model with an all-zero point and covers every component"),
 "c19a": ("C19", "HorseshoeCirculations offset '=' instead of '+='", "three or more surfaces, third with nx>=3", "caught by C19 at once; C05 had three surfaces only in the thorough tier - now also quick"),
 "c20a": ("C20", "EvalVelMtx.surface_indices_repeated made a class attribute", "two Problems with a symmetric surface of the SAME name and different size; B set up between A's setup and A's linearisation", "missed at first: the interleaving pairs used different surface names; added same-name/different-size pair"),
 "c06b": ("C06", "ViscousDrag fully laminar branch uses re instead of re*chord", "with_viscous, k_lam = 1.0, length scaling", "missed at first: C06 only used k_lam = 0.05; laminar-fraction axis {0.05, 1, 0} added"),
 "c08b": ("C08", "VortexMesh ground-effect image rows use the wrong slice (broadcast of the trailing edge)", "ground effect with nx >= 3", "caught at once by C08, C04, C01"),
 "c09b": ("C09", "RotateToWindFrame: identity shortcut when alpha == 0 (forgets sideslip)", "compressible, alpha exactly 0, beta non-zero", "caught at once (alpha = 0 and beta != 0 are in the alphabet)"),
 "c13b": ("C13", "GeometryMesh: ref_axis_pos 0.0 replaced by 0.25 ('x or default')", "ref_axis_pos exactly 0 and an active taper/chord/twist", "caught at once"),
 "c14b": ("C14", "multi-section right wing: inboard chord read from the root section", ">= 2 sections right of the root, tapered section in between", "caught at once"),
 "c15b": ("C15", "VonMisesTube skips elements whose end displacements are identical (no reset)", "same Problem: loaded field, then a field with identical end-node rows", "caught at once (C15 evaluates its field families on one live component)"),
 "c17b": ("C17", "AtmosComp caches on altitude; v = M a inside the cached block", "same Problem, same altitude, different Mach number", "caught through problem reuse between states; made deterministic by an explicit Mach change at fixed altitude inside each state"),
 "c18b": ("C18", "WaveDrag: no write of CDw at/below Mcrit for non-symmetric surfaces", "full-span, same Problem evaluated above and then below the onset", "caught at once (the ladders run on one live component)"),
 "c01b": ("C01", "VortexMesh.setup: mesh index map not reversed for right-half meshes (no ground plane)", "symmetric right-half mesh without ground plane", "caught at once"),
 "c02b": ("C02", "ComputePointMassLoads: np.abs kills the complex-step derivative of the spanwise distance", "point mass between two nodes; totals w.r.t. point_mass_locations / span", "caught at once by C02 and C01"),
 "c03b": ("C03", "CreateRHS leaves entries below the threshold unwritten", "a load component non-zero earlier and (near) zero now on the same Problem", "caught at once (C03 zero-valued special point; C10 unit loads)"),
}
root = "/verif/seeded"
for m, (prop, what, needs, note) in T.items():
    d = os.path.join(root, m)
    if not os.path.isdir(d):
        continue
    caught, ran = [], []
    mp = os.path.join(d, "matrix.txt")
    if os.path.exists(mp):
        for l in open(mp):
            k = re.match(r"(C\d+) rc=(\d+) violations=(\d+)", l)
            if k and k.group(2) == "1":
                caught.append(k.group(1))
        ran.append("tools/try_mutant.sh seeded/%s/patch.diff quick  (all 20 quick checks against a scratch worktree of /repo HEAD with the patch applied)" % m)
    cp = os.path.join(d, "confirm.log")
    conf = open(cp).read().strip().splitlines() if os.path.exists(cp) else []
    ran.append("tools/confirm_mutant.sh %s  (scratch worktree: patch applies; demo exits 1 with it; tools/baseline.sh: all 174 baseline tests pass with it; demo exits 0 without it)" % m)
    json.dump(dict(id=m, breaks_property=prop, change=what, needs_to_manifest=needs, detected_by_quick_checks=caught, history=note, what_i_ran=ran, confirmation_log=conf[-5:]), open(os.path.join(d, "meta.json"), "w"), indent=1)
print("meta written for", [m for m in T if os.path.isdir(os.path.join(root, m))])
