#!/bin/bash
# tools/score_all.sh [ids...] : runs every quick check against every seeded change (scratch worktrees, /repo untouched)
# and writes seeded/<id>/matrix.txt (one line per check) plus seeded/MATRIX.md
cd /verif
IDS="$@"; [ -z "$IDS" ] && IDS=$(ls seeded | grep -v MATRIX)
for m in $IDS; do
  [ -f seeded/$m/patch.diff ] || continue
  tools/try_mutant.sh seeded/$m/patch.diff quick 2>&1 | grep -v condarc > seeded/$m/matrix.txt
done
/venv/bin/python - <<'P'
import glob,os,re
rows=[]
for d in sorted(glob.glob('/verif/seeded/*/matrix.txt')):
    m=os.path.basename(os.path.dirname(d)); caught=[]; broken=[]
    for l in open(d):
        k=re.match(r'(C\d+) rc=(\d+) violations=(\d+)',l)
        if not k: continue
        if k.group(2)=='1': caught.append(k.group(1))
        elif k.group(2)!='0': broken.append(k.group(1))
    rows.append((m,caught,broken))
with open('/verif/seeded/MATRIX.md','w') as f:
    f.write('| seeded change | quick checks reporting a VIOLATION (exit 1) | checks exiting 2 |\n|---|---|---|\n')
    for m,c,b in rows: f.write('| %s | %s | %s |\n'%(m,' '.join(c) or '**none**',' '.join(b) or '-'))
print(open('/verif/seeded/MATRIX.md').read())
P
