#!/bin/bash
# runs every registered check (quick by default, "thorough" as first arg) sequentially and prints one line per check
cd /verif
TIER=${1:-quick}
for id in $(/venv/bin/python -c "import json;print(' '.join(c['property_id'] for c in json.load(open('MANIFEST.json'))['checks']))"); do
  s=$(date +%s)
  out=$(./check $id --tier $TIER 2>&1); rc=$?
  e=$(( $(date +%s) - s ))
  echo "$id rc=$rc ${e}s known=$(echo "$out" | grep -c '^KNOWN-FINDING') viol=$(echo "$out" | grep -c '^VIOLATION') :: $(echo "$out" | tail -1 | cut -c1-150)"
done
