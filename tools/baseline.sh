#!/bin/bash
# Runs the repository's baseline test-suite (guard off) on a tree (default /repo) in 16 shards, each shard
# in its own scratch cwd (OpenMDAO's <cwd>/<script>_out directories collide under pytest-xdist), and compares
# the outcome with /root/.vp/BASELINE.json's stable_pass list; tests missing from the sharded run are re-run
# serially from the tree root exactly like the baseline command before being reported.
# Usage: tools/baseline.sh [tree]
TREE=$(readlink -f "${1:-/repo}")
OUT=$(mktemp -d /tmp/oas_baseline_XXXX)
cd "$TREE" || exit 2
ls tests/*/test_*.py | awk '{print NR%16, $0}' > $OUT/shards
for k in $(seq 0 15); do
  mkdir -p $OUT/s$k
  files=$(awk -v k=$k '$1==k{print "'$TREE'/"$2}' $OUT/shards)
  ( cd $OUT/s$k && env -u MDOLAB_OPENAEROSTRUCT_VERIF PYTHONPATH=$TREE PYTHONDONTWRITEBYTECODE=1 OPENMDAO_REPORTS=0 /venv/bin/python -m pytest -q -p no:cacheprovider --timeout=900 --rootdir=$TREE --continue-on-collection-errors --junitxml=$OUT/j$k.xml $files > $OUT/log$k 2>&1 ) &
done
wait
/venv/bin/python - "$OUT" "$TREE" <<'P'
import json,sys,glob,subprocess,os,xml.etree.ElementTree as ET
out,tree=sys.argv[1:3]
base=set(json.load(open('/root/.vp/BASELINE.json'))['stable_pass'])
def passed(files):
    ok=set()
    for f in files:
        for tc in ET.parse(f).getroot().iter('testcase'):
            cn=tc.get('classname')
            i=cn.find('tests.')
            name=cn[i:]+'::'+tc.get('name')
            if not any(c.tag in('failure','error','skipped') for c in tc): ok.add(name)
    return ok
ok=passed(glob.glob(out+'/j*.xml'))
missing=sorted(base-ok)
if missing:
    files=sorted({tree+'/'+m.split('::')[0].rsplit('.',1)[0].replace('.','/')+'.py' for m in missing})
    files=[f.replace('/test_aerostruct_wingbox_+weight_analysis','/test_aerostruct_wingbox_+weight_analysis') for f in files]
    env=dict(os.environ); env.pop('MDOLAB_OPENAEROSTRUCT_VERIF',None); env['PYTHONDONTWRITEBYTECODE']='1'
    subprocess.run(['/venv/bin/python','-m','pytest','-q','-p','no:cacheprovider','--timeout=900','--junitxml='+out+'/serial.xml']+files,cwd=tree,env=env,capture_output=True)
    if os.path.exists(out+'/serial.xml'): ok|=passed([out+'/serial.xml'])
    missing=sorted(base-ok)
print('baseline stable_pass: %d, passing now: %d, missing: %d'%(len(base),len(base&ok),len(missing)))
for m in missing: print('  MISSING',m)
sys.exit(1 if missing else 0)
P
rc=$?
rm -rf $OUT
exit $rc
