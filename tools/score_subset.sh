#!/bin/bash
# scores every seeded change against its own property's check and the checks that are expected to see it
cd /verif
declare -A L=( [c01a]="C01 C03" [c02a]="C02" [c03a]="C01 C03" [c04a]="C04 C16" [c05a]="C03 C05" [c05b]="C05 C19" [c07a]="C07 C16" [c10a]="C10 C20" [c11a]="C11" [c12a]="C12 C03" [c16a]="C03 C16" [c19a]="C19 C05" [c20a]="C20" [c06b]="C06 C01" [c08b]="C08 C04 C01" [c09b]="C09" [c13b]="C13" [c14b]="C14" [c15b]="C15" [c17b]="C17" [c18b]="C18" [c01b]="C01" [c02b]="C02 C01" [c03b]="C03 C10" [c19c]="C19" [c08c]="C08" [c14c]="C14" [c16c]="C16 C04" [c20c]="C20" [c12c]="C11 C12" [c10c]="C10" [c02c]="C02" [c07c]="C07 C13" [c13c]="C13" [c04c]="C04 C07" [c11c]="C11" [c09d]="C09" [c18d]="C18 C01" [c15d]="C15" [c06d]="C06" [c05d]="C05" [c16d]="C16" [c17d]="C17" [c20d]="C20" [c01d]="C01 C02" [c03d]="C03" [c01e]="C01 C02" [c02e]="C02" [c04e]="C04 C17 C19" [c06e]="C06 C17" [c07e]="C07 C05" [c10e]="C10" [c11e]="C11 C19" [c12e]="C12 C03" [c16e]="C16" [c17e]="C17 C19" [c19e]="C19 C05" [c03f]="C03" [c05f]="C05 C19" [c08f]="C08 C04" [c09f]="C09" [c13f]="C13" [c14f]="C14" [c15f]="C15" [c18f]="C18" [c20f]="C20" [c01f]="C01 C02" [c02f]="C02" [c12f]="C12" [c15g]="C15" [c19g]="C19 C11" [c13g]="C13" [c14g]="C14" [c16g]="C16 C04" [c05g]="C05 C09" [c04g]="C04 C16" [c06g]="C06" [c17g]="C17" [c11g]="C11" [c10g]="C10 C07" [c07g]="C07" )
ONLY=${1:-.}
for m in $(echo "${!L[@]}" | tr ' ' '\n' | sort | grep -E "$ONLY"); do
  tools/try_mutant.sh seeded/$m/patch.diff quick ${L[$m]} 2>&1 | grep -v condarc > seeded/$m/matrix.txt
  echo "$m: $(grep -c 'rc=1' seeded/$m/matrix.txt) of $(wc -l < seeded/$m/matrix.txt) checks report it :: $(grep 'rc=1' seeded/$m/matrix.txt | cut -d' ' -f1 | tr '\n' ' ')"
done
