#!/venv/bin/python
"""seeded/MATRIX.md from seeded/<id>/meta.json + matrix.txt (measured: which quick checks report which seeded change)"""
import json, os, re
root = "/verif/seeded"
rows = []
for m in sorted(os.listdir(root)):
    mp = os.path.join(root, m, "meta.json")
    if not os.path.exists(mp):
        continue
    d = json.load(open(mp))
    ran = []
    tx = os.path.join(root, m, "matrix.txt")
    if os.path.exists(tx):
        for l in open(tx):
            k = re.match(r"(C\d+) rc=(\d+)", l)
            if k:
                ran.append((k.group(1), k.group(2)))
    conf = "yes" if any("demo without change: exit 0" in l for l in d.get("confirmation_log", [])) and any("demo with change: exit 1" in l for l in d.get("confirmation_log", [])) and any("passing now: 174" in l for l in d.get("confirmation_log", [])) else "NO"
    rows.append("| %s | %s | %s | %s | %s | %s |" % (m, d["breaks_property"], d["change"], d["needs_to_manifest"], " ".join("%s:%s" % (c, "REPORTED" if rc == "1" else ("silent" if rc == "0" else "rc" + rc)) for c, rc in ran), conf))
open(os.path.join(root, "MATRIX.md"), "w").write(
    "# Seeded changes x quick checks (measured)\n\nEach row: a change kept under seeded/<id>/, the property it breaks, what it needs to manifest, the verdict of the quick checks that were run against a scratch worktree of /repo HEAD with the patch applied (tools/try_mutant.sh; REPORTED = exit 1 with a VIOLATION line), and whether tools/confirm_mutant.sh confirmed it (patch applies, demo exits 1 with it and 0 without it, all 174 baseline tests pass with it).\n\n| id | property | change | needs | quick checks run | confirmed |\n|---|---|---|---|---|---|\n" + "\n".join(rows) + "\n")
print(len(rows), "rows;", sum(1 for r in rows if "REPORTED" in r), "reported by at least one check;", sum(1 for r in rows if r.endswith("| yes |")), "confirmed")
