#!/bin/bash
# tools/try_mutant.sh <patch.diff> [tier] [check ids...]
# Evaluates a seeded change WITHOUT touching /repo: a scratch worktree of /repo's HEAD is created under /tmp, the
# patch applied there, the given checks (default: all, quick) run against it (OASMC_REPO), the worktree removed.
PATCH=$(readlink -f "$1"); TIER=${2:-quick}; shift 2 2>/dev/null
WT=$(mktemp -d /tmp/oas_mut_XXXX); rmdir $WT
git -C /repo worktree add -q --detach $WT HEAD || exit 2
trap 'git -C /repo worktree remove --force $WT' EXIT
git -C $WT apply "$PATCH" || { echo "patch does not apply to HEAD"; exit 2; }
cd /verif
IDS="$@"
[ -z "$IDS" ] && IDS=$(/venv/bin/python -c "import json;print(' '.join(c['property_id'] for c in json.load(open('MANIFEST.json'))['checks']))")
for id in $IDS; do
  out=$(OASMC_REPO=$WT ./check $id --tier $TIER 2>&1); rc=$?
  nv=$(echo "$out" | grep -c '^VIOLATION')
  echo "$id rc=$rc violations=$nv :: $(echo "$out" | grep -m1 '^  violation' | cut -c1-260)"
done
