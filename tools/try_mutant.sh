#!/bin/bash
# tools/try_mutant.sh <patch.diff> [tier] [check ids...]
# applies a seeded change to /repo, runs the given checks (default: all, quick), restores /repo.  Never commits.
PATCH=$(readlink -f "$1"); TIER=${2:-quick}; shift 2 2>/dev/null
cd /repo || exit 2
if [ -n "$(git status --porcelain --untracked-files=no)" ]; then echo "/repo has uncommitted tracked changes - refusing"; exit 2; fi
git apply "$PATCH" || { echo "patch does not apply"; exit 2; }
EVB=$(mktemp -d); cp -a /verif/evidence/. $EVB/
trap 'git -C /repo checkout -- . ; cp -a $EVB/. /verif/evidence/; rm -rf $EVB' EXIT
cd /verif
IDS="$@"
[ -z "$IDS" ] && IDS=$(/venv/bin/python -c "import json;print(' '.join(c['property_id'] for c in json.load(open('MANIFEST.json'))['checks']))")
for id in $IDS; do
  out=$(./check $id --tier $TIER 2>&1); rc=$?
  nv=$(echo "$out" | grep -c '^VIOLATION')
  echo "$id rc=$rc violations=$nv :: $(echo "$out" | grep -m1 '^  violation' | cut -c1-260)"
done
